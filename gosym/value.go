package main

import (
	"fmt"
	"go/types"
	"strings"

	"golang.org/x/tools/go/ssa"
)

// Value is one of: *Term (scalar), Ptr, Struct, Vec, BArr, Slice, Str, Iface,
// *Func, MapRef, Tuple, BigV.  Values are immutable; memory cells (Obj) hold them.
type Value interface{}

type Obj struct {
	id    int
	val   Value
	typ   types.Type
	tag   string
	init  bool // created during package initialisation (shared, restored per path)
	glob  *ssa.Global
	wrote bool
}

// PE is one step of a pointer path: a concrete field/element index, or a
// symbolic index into a byte array.
type PE struct {
	i   int
	sym *Term
}

type Ptr struct {
	obj  *Obj
	path []PE
}

func (p Ptr) IsNil() bool { return p.obj == nil }
func (p Ptr) ext(e PE) Ptr {
	np := make([]PE, len(p.path)+1)
	copy(np, p.path)
	np[len(p.path)] = e
	return Ptr{p.obj, np}
}

type Struct []Value
type Vec []Value
type Tuple []Value

// BArr is the storage of a byte array: an SMT array term.  n is the static
// size for [N]byte values and -1 for heap backing stores of byte slices.
type BArr struct {
	t *Term
	n int
}

type Slice struct {
	base          Ptr // location of a Vec or BArr; nil obj = nil slice
	off, len, cap *Term
	max           int   // concrete upper bound on cap (unrolling bound)
	minrep        *Term // when set: the bytes are the minimal big-endian form of this 256-bit value
}

type Str struct {
	arr      *Term
	off, len *Term
	max      int
	minrep   *Term
}

type Iface struct {
	typ types.Type // nil = nil interface
	val Value
}

type Func struct {
	fn      *ssa.Function
	free    []Value
	builtin *ssa.Builtin
}

type MapEnt struct {
	k, v Value
}
type MapV struct {
	ents []MapEnt
}
type MapRef struct {
	obj *Obj // obj.val is *MapV; nil obj = nil map
}

// BigV models a math/big.Int restricted to [0, 2^256).
type BigV struct {
	t *Term
}

func isByte(t types.Type) bool {
	b, ok := t.Underlying().(*types.Basic)
	return ok && (b.Kind() == types.Uint8 || b.Kind() == types.Byte)
}

func isNamed(t types.Type, pkg, name string) bool {
	n, ok := t.(*types.Named)
	if !ok {
		return false
	}
	o := n.Obj()
	return o.Name() == name && o.Pkg() != nil && o.Pkg().Path() == pkg
}

func basicWidth(b *types.Basic) int {
	switch b.Kind() {
	case types.Bool, types.UntypedBool:
		return SortBool
	case types.Int8, types.Uint8:
		return 8
	case types.Int16, types.Uint16:
		return 16
	case types.Int32, types.Uint32, types.UntypedRune:
		return 32
	case types.Int, types.Uint, types.Int64, types.Uint64, types.Uintptr, types.UntypedInt:
		return 64
	case types.Float32:
		return 32
	case types.Float64, types.UntypedFloat:
		return 64
	case types.UnsafePointer:
		return 64
	}
	return -99
}

func isSigned(t types.Type) bool {
	b, ok := t.Underlying().(*types.Basic)
	return ok && b.Info()&types.IsInteger != 0 && b.Info()&types.IsUnsigned == 0
}

func typeWidth(t types.Type) int {
	if b, ok := t.Underlying().(*types.Basic); ok {
		return basicWidth(b)
	}
	return -99
}

func (e *Exec) zero(t types.Type) Value {
	tb := e.tb
	if isNamed(t, "math/big", "Int") {
		return BigV{tb.BVu(0, 256)}
	}
	switch u := t.Underlying().(type) {
	case *types.Basic:
		if u.Info()&types.IsString != 0 {
			return Str{arr: tb.ConstArr(), off: tb.BVu(0, 64), len: tb.BVu(0, 64)}
		}
		w := basicWidth(u)
		if w == SortBool {
			return tb.False()
		}
		if w < 0 {
			panic(unsupported("zero of basic type " + t.String()))
		}
		return tb.BVu(0, w)
	case *types.Pointer:
		return Ptr{}
	case *types.Slice:
		return Slice{off: tb.BVu(0, 64), len: tb.BVu(0, 64), cap: tb.BVu(0, 64)}
	case *types.Map:
		return MapRef{}
	case *types.Interface:
		return Iface{}
	case *types.Signature:
		return (*Func)(nil)
	case *types.Struct:
		s := make(Struct, u.NumFields())
		for i := range s {
			s[i] = e.zero(u.Field(i).Type())
		}
		return s
	case *types.Array:
		if isByte(u.Elem()) {
			return BArr{tb.ConstArr(), int(u.Len())}
		}
		v := make(Vec, u.Len())
		if u.Len() > 0 {
			z := e.zero(u.Elem())
			for i := range v {
				v[i] = z
			}
		}
		return v
	case *types.Chan:
		return Ptr{}
	case *types.Tuple:
		tu := make(Tuple, u.Len())
		for i := range tu {
			tu[i] = e.zero(u.At(i).Type())
		}
		return tu
	}
	panic(unsupported("zero of type " + t.String()))
}

type unsupportedErr struct{ msg string }

func unsupported(msg string) *unsupportedErr { return &unsupportedErr{msg} }

func getAt(v Value, path []PE, e *Exec) Value {
	for _, pe := range path {
		switch x := v.(type) {
		case Struct:
			v = x[pe.i]
		case Vec:
			if pe.i < 0 || pe.i >= len(x) {
				panic(unsupported(fmt.Sprintf("internal: vec index %d out of %d", pe.i, len(x))))
			}
			v = x[pe.i]
		case BArr:
			idx := pe.sym
			if idx == nil {
				idx = e.tb.BVu(uint64(pe.i), 64)
			}
			v = e.tb.Select(x.t, idx)
		case BigV:
			panic(unsupported("field access into big.Int"))
		default:
			panic(unsupported(fmt.Sprintf("internal: getAt through %T", v)))
		}
	}
	return v
}

func setAt(v Value, path []PE, nv Value, e *Exec) Value {
	if len(path) == 0 {
		return nv
	}
	pe := path[0]
	switch x := v.(type) {
	case Struct:
		c := make(Struct, len(x))
		copy(c, x)
		c[pe.i] = setAt(x[pe.i], path[1:], nv, e)
		return c
	case Vec:
		c := make(Vec, len(x))
		copy(c, x)
		c[pe.i] = setAt(x[pe.i], path[1:], nv, e)
		return c
	case BArr:
		idx := pe.sym
		if idx == nil {
			idx = e.tb.BVu(uint64(pe.i), 64)
		}
		return BArr{e.tb.Store(x.t, idx, nv.(*Term)), x.n}
	}
	panic(unsupported(fmt.Sprintf("internal: setAt through %T", v)))
}

func (e *Exec) newObj(v Value, t types.Type, tag string) *Obj {
	e.objSeq++
	o := &Obj{id: e.objSeq, val: v, typ: t, tag: tag, init: e.inInit}
	if e.inInit {
		e.initObjs = append(e.initObjs, o)
	}
	return o
}

func (e *Exec) load(p Ptr) Value {
	if p.obj == nil {
		e.goPanic("runtime error: invalid memory address or nil pointer dereference")
	}
	return getAt(p.obj.val, p.path, e)
}

func (e *Exec) store(p Ptr, v Value) {
	if p.obj == nil {
		e.goPanic("runtime error: invalid memory address or nil pointer dereference")
	}
	if p.obj.init && !e.inInit {
		e.noteSharedWrite(p.obj)
	}
	p.obj.val = setAt(p.obj.val, p.path, v, e)
}

func (e *Exec) noteSharedWrite(o *Obj) {
	if !o.wrote {
		o.wrote = true
		e.dirty = append(e.dirty, o)
	}
	name := o.tag
	if o.glob != nil {
		name = o.glob.String()
	}
	site := e.curSite()
	e.sharedWrites[name] = site
	// a write by the code under test (not by a harness or a cut-point shim) to memory that
	// was created by package initialisation is shared by every EVM instance in the process
	if e.h.SharedWrites && len(e.stack) > 0 {
		// the responsible code is the innermost frame that belongs to the repository
		// (library code such as uint256 methods is attributed to its caller)
		file, fnName := "", ""
		for i := len(e.stack) - 1; i >= 0; i-- {
			fr := e.stack[i]
			f := ""
			if fr.fn.Pos().IsValid() {
				f = e.prog.Fset.Position(fr.fn.Pos()).Filename
			} else if fr.curInstr != nil && fr.curInstr.Pos().IsValid() {
				f = e.prog.Fset.Position(fr.curInstr.Pos()).Filename
			}
			if strings.HasPrefix(f, e.eng.repo+"/") {
				file, fnName = f, fr.fn.String()
				site = e.siteOf(fr)
				break
			}
		}
		if file != "" && !strings.Contains(file, "zz_verif_") && !strings.Contains(fnName, "verif") && !strings.Contains(fnName, "Verif") {
			if name == "" {
				name = "object created by package initialisation"
			}
			e.reportViolation("shared-write", "C16: the code under test writes to package-level memory shared by all EVM instances ("+name+")", site, nil)
		}
	}
}

// describe renders a value for diagnostics / observation logs.
func describe(v Value) string {
	switch x := v.(type) {
	case nil:
		return "<nil>"
	case *Term:
		return x.String()
	case Ptr:
		if x.obj == nil {
			return "nilptr"
		}
		return fmt.Sprintf("&obj%d%v", x.obj.id, x.path)
	case Struct:
		s := []string{}
		for _, f := range x {
			s = append(s, describe(f))
		}
		return "{" + strings.Join(s, ",") + "}"
	case Vec:
		s := []string{}
		for _, f := range x {
			s = append(s, describe(f))
		}
		return "[" + strings.Join(s, ",") + "]"
	case BArr:
		return fmt.Sprintf("barr%d", x.n)
	case Slice:
		return fmt.Sprintf("slice(len=%s)", x.len)
	case Str:
		return fmt.Sprintf("str(len=%s)", x.len)
	case Iface:
		if x.typ == nil {
			return "nil-iface"
		}
		return "iface(" + x.typ.String() + ":" + describe(x.val) + ")"
	case *Func:
		if x == nil {
			return "nilfunc"
		}
		if x.fn != nil {
			return "func " + x.fn.String()
		}
		return "builtin"
	case MapRef:
		return "map"
	case Tuple:
		s := []string{}
		for _, f := range x {
			s = append(s, describe(f))
		}
		return "(" + strings.Join(s, ",") + ")"
	case BigV:
		return "big(" + x.t.String() + ")"
	}
	return fmt.Sprintf("%T", v)
}
