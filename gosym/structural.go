package main

import (
	"fmt"
	"go/types"
	"strings"

	"golang.org/x/tools/go/ssa"
)

// checkAbortFlag is the structural half of the C17 reduction: the EVM's abort
// flag must be a sync/atomic.Bool and every use of it in the package must be the
// receiver of one of its methods (no plain read, write or copy).
func checkAbortFlag(g *Engine) []string {
	var problems []string
	p := g.findPkg("github.com/artela-network/artela-evm/vm")
	if p == nil {
		return []string{"vm package not loaded"}
	}
	evmT := p.Type("EVM")
	if evmT == nil {
		return []string{"type EVM not found"}
	}
	st := evmT.Type().Underlying().(*types.Struct)
	idx := -1
	for i := 0; i < st.NumFields(); i++ {
		if st.Field(i).Name() == "abort" {
			idx = i
			if !isNamed(st.Field(i).Type(), "sync/atomic", "Bool") {
				problems = append(problems, fmt.Sprintf("EVM.abort has type %s, not sync/atomic.Bool", st.Field(i).Type()))
			}
		}
	}
	if idx < 0 {
		return []string{"EVM has no abort field (cancellation flag not found)"}
	}
	uses := 0
	for _, m := range p.Members {
		fns := []*ssa.Function{}
		if f, ok := m.(*ssa.Function); ok {
			fns = append(fns, f)
		}
		if t, ok := m.(*ssa.Type); ok {
			for _, recv := range []types.Type{t.Type(), types.NewPointer(t.Type())} {
				ms := g.prog.MethodSets.MethodSet(recv)
				for i := 0; i < ms.Len(); i++ {
					if f := g.prog.MethodValue(ms.At(i)); f != nil {
						fns = append(fns, f)
					}
				}
			}
		}
		for len(fns) > 0 {
			f := fns[0]
			fns = fns[1:]
			fns = append(fns, f.AnonFuncs...)
			for _, b := range f.Blocks {
				for _, in := range b.Instrs {
					fa, ok := in.(*ssa.FieldAddr)
					if !ok || fa.Field != idx {
						continue
					}
					pt, ok := fa.X.Type().Underlying().(*types.Pointer)
					if !ok || !types.Identical(pt.Elem(), evmT.Type()) {
						continue
					}
					if strings.Contains(g.prog.Fset.Position(fa.Pos()).Filename, "zz_verif_") {
						continue
					}
					uses++
					for _, r := range *fa.Referrers() {
						c, ok := r.(*ssa.Call)
						if ok && c.Call.StaticCallee() != nil && strings.HasPrefix(c.Call.StaticCallee().String(), "(*sync/atomic.Bool).") {
							continue
						}
						problems = append(problems, fmt.Sprintf("non-atomic use of EVM.abort at %s", g.prog.Fset.Position(r.Pos())))
					}
				}
			}
		}
	}
	if uses == 0 {
		problems = append(problems, "no use of EVM.abort found (Cancel has no effect)")
	}
	return problems
}
