package main

import (
	"fmt"
	"go/types"
	"math/big"
	"strings"

	"golang.org/x/tools/go/ssa"
)

const u256 = "github.com/holiman/uint256"
const gethCommon = "github.com/ethereum/go-ethereum/common"
const gethCrypto = "github.com/ethereum/go-ethereum/crypto"

func (e *Exec) str(v Value) string {
	s, ok := v.(Str)
	if !ok {
		panic(unsupported("expected string argument"))
	}
	r := e.strConcrete(s)
	if r == "<symbolic string>" {
		panic(unsupported("intrinsic needs a concrete string"))
	}
	return r
}

func (e *Exec) addInput(name, kind string, term, arr *Term, n int) {
	e.inputs = append(e.inputs, inputRec{Name: name, Kind: kind, term: term, arr: arr, n: n})
}

// u256 helpers: a uint256.Int is a Vec of four 64-bit limbs, little-endian.
func (e *Exec) u256Of(v Value) *Term {
	x := v.(Vec)
	tb := e.tb
	return tb.Concat(x[3].(*Term), tb.Concat(x[2].(*Term), tb.Concat(x[1].(*Term), x[0].(*Term))))
}
func (e *Exec) u256Vec(t *Term) Vec {
	tb := e.tb
	return Vec{tb.Extract(t, 63, 0), tb.Extract(t, 127, 64), tb.Extract(t, 191, 128), tb.Extract(t, 255, 192)}
}
func (e *Exec) u256Load(p Value) *Term { return e.u256Of(e.load(p.(Ptr))) }

// bytes32Arr packs a 256-bit term into a byte array term (big endian at 0..31).
func (e *Exec) bytesFromWord(t *Term, nbytes int) *Term {
	tb := e.tb
	arr := tb.ConstArr()
	for i := 0; i < nbytes; i++ {
		hi := t.w - 1 - 8*i
		arr = tb.Store(arr, tb.BVu(uint64(i), 64), tb.Extract(t, hi, hi-7))
	}
	return arr
}

// wordFromBytes reads n bytes big-endian from arr at off.
func (e *Exec) wordFromBytes(arr, off *Term, n int) *Term {
	tb := e.tb
	var r *Term
	for i := 0; i < n; i++ {
		b := tb.Select(arr, tb.Bin(OpAdd, off, tb.BVu(uint64(i), 64)))
		if r == nil {
			r = b
		} else {
			r = tb.Concat(r, b)
		}
	}
	return r
}

func (e *Exec) byteLen(t *Term) *Term {
	tb := e.tb
	n := t.w / 8
	r := tb.BVu(0, 64)
	for i := 0; i < n; i++ {
		b := tb.Extract(t, 8*i+7, 8*i)
		r = tb.Ite(tb.Eq(b, tb.BVu(0, 8)), r, tb.BVu(uint64(i+1), 64))
	}
	return r
}

func (e *Exec) bitLen(t *Term) *Term {
	tb := e.tb
	r := tb.BVu(0, 64)
	for i := 0; i < t.w; i++ {
		b := tb.Extract(t, i, i)
		r = tb.Ite(tb.Eq(b, tb.BVu(1, 1)), tb.BVu(uint64(i+1), 64), r)
	}
	return r
}

func (e *Exec) newBytes(arr *Term, off, n *Term, max int, tag string) Slice {
	o := e.newObj(BArr{arr, -1}, nil, tag)
	return Slice{base: Ptr{obj: o}, off: off, len: n, cap: n, max: max}
}

func (e *Exec) errorsNew(s Str) Value {
	ep := e.eng.pkgs["errors"]
	t := ep.Type("errorString").Type()
	o := e.newObj(Struct{s}, t, "error")
	return Iface{typ: types.NewPointer(t), val: Ptr{obj: o}}
}

func (e *Exec) freshStr(name string, max int) Str {
	tb := e.tb
	arr := e.fresh(name+".arr", SortArr)
	n := e.fresh(name+".len", 64)
	e.assertPC(tb.Cmp(OpUle, n, tb.BVu(uint64(max), 64)))
	return Str{arr: arr, off: tb.BVu(0, 64), len: n, max: max}
}

// keccakTerm is an uninterpreted hash of a byte string (congruent in content and length).
func (e *Exec) keccakTerm(arr, off, n *Term, max int) *Term {
	tb := e.tb
	mk := func(k int) *Term {
		if k == 0 {
			// the hash of the empty string is a constant the code compares against (emptyCodeHash)
			v, _ := new(big.Int).SetString("c5d2460186f7233c927e7db2dcc703c0e500b653ca82273b7bfad8045d85a470", 16)
			return tb.BV(v, 256)
		}
		args := make([]*Term, k)
		for i := 0; i < k; i++ {
			args[i] = tb.Select(arr, tb.Bin(OpAdd, off, tb.BVu(uint64(i), 64)))
		}
		t := tb.UF(fmt.Sprintf("keccak_%d", k), 256, args...)
		e.ufs = append(e.ufs, ufRec{name: fmt.Sprintf("keccak_%d", k), args: args, res: t})
		return t
	}
	// inputs longer than one sponge block: a chain of uninterpreted absorb steps over 32-byte
	// words (bytes past the length masked to zero), closed by a step that takes the length;
	// congruent in content and length, linear in the bound
	long := func() *Term {
		if max > 4096 {
			panic(unsupported(fmt.Sprintf("keccak with bound %d", max)))
		}
		acc := tb.BVu(0, 256)
		for w := 0; w*32 < max; w++ {
			var word *Term
			for k := 0; k < 32; k++ {
				pos := tb.BVu(uint64(w*32+k), 64)
				b := tb.Ite(tb.Cmp(OpUlt, pos, n), tb.Select(arr, tb.Bin(OpAdd, off, pos)), tb.BVu(0, 8))
				if word == nil {
					word = b
				} else {
					word = tb.Concat(word, b)
				}
			}
			next := tb.UF("keccak_absorb", 256, acc, word)
			acc = tb.Ite(tb.Cmp(OpUlt, tb.BVu(uint64(w*32), 64), n), next, acc)
		}
		return tb.UF("keccak_final", 256, acc, n)
	}
	if c, ok := n.ConstU64(); ok {
		if c <= 136 {
			return mk(int(c))
		}
		return long()
	}
	short := max
	if short > 136 {
		short = 136
	}
	r := mk(short)
	for k := short - 1; k >= 0; k-- {
		r = tb.Ite(tb.Eq(n, tb.BVu(uint64(k), 64)), mk(k), r)
	}
	if max > 136 {
		r = tb.Ite(tb.Cmp(OpUle, n, tb.BVu(136, 64)), r, long())
	}
	return r
}

func (g *Engine) registerIntrinsics() {
	g.intr = map[string]intrinsicFn{}
	g.bare = map[string]intrinsicFn{}
	b := g.bare
	I := g.intr

	// ------------------------------------------------------------ harness API
	b["verifU64"] = func(e *Exec, fn *ssa.Function, a []Value) Value {
		n := e.str(a[0])
		t := e.fresh(n, 64)
		e.addInput(n, "u64", t, nil, 0)
		return t
	}
	b["verifU8"] = func(e *Exec, fn *ssa.Function, a []Value) Value {
		n := e.str(a[0])
		t := e.fresh(n, 8)
		e.addInput(n, "u8", t, nil, 0)
		return t
	}
	b["verifBool"] = func(e *Exec, fn *ssa.Function, a []Value) Value {
		n := e.str(a[0])
		t := e.fresh(n, SortBool)
		e.addInput(n, "bool", t, nil, 0)
		return t
	}
	b["verifU256"] = func(e *Exec, fn *ssa.Function, a []Value) Value {
		n := e.str(a[0])
		t := e.fresh(n, 256)
		e.addInput(n, "u256", t, nil, 0)
		return e.u256Vec(t)
	}
	b["verifBig"] = func(e *Exec, fn *ssa.Function, a []Value) Value {
		n := e.str(a[0])
		t := e.fresh(n, 256)
		e.addInput(n, "big", t, nil, 0)
		return Ptr{obj: e.newObj(BigV{t}, nil, "big")}
	}
	fixed := func(kind string, nb int) intrinsicFn {
		return func(e *Exec, fn *ssa.Function, a []Value) Value {
			n := e.str(a[0])
			t := e.fresh(n, 8*nb)
			e.addInput(n, kind, t, nil, 0)
			return BArr{e.bytesFromWord(t, nb), nb}
		}
	}
	b["verifAddr"] = fixed("addr", 20)
	b["verifHash"] = fixed("hash", 32)
	b["verifBytes"] = func(e *Exec, fn *ssa.Function, a []Value) Value {
		n := e.str(a[0])
		ln := a[1].(*Term)
		max, ok := a[2].(*Term).ConstU64()
		if !ok {
			panic(unsupported("verifBytes max must be concrete"))
		}
		if !e.branch(e.tb.Cmp(OpUle, ln, e.tb.BVu(max, 64))) {
			e.end("infeasible", "verifBytes length above max")
		}
		arr := e.fresh(n, SortArr)
		e.addInput(n, "bytes", ln, arr, int(max))
		return e.newBytes(arr, e.tb.BVu(0, 64), ln, int(max), n)
	}
	b["verifString"] = func(e *Exec, fn *ssa.Function, a []Value) Value {
		n := e.str(a[0])
		ln := a[1].(*Term)
		max, _ := a[2].(*Term).ConstU64()
		if !e.branch(e.tb.Cmp(OpUle, ln, e.tb.BVu(max, 64))) {
			e.end("infeasible", "verifString length above max")
		}
		arr := e.fresh(n, SortArr)
		e.addInput(n, "bytes", ln, arr, int(max))
		return Str{arr: arr, off: e.tb.BVu(0, 64), len: ln, max: int(max)}
	}
	b["verifAssume"] = func(e *Exec, fn *ssa.Function, a []Value) Value {
		c := a[0].(*Term)
		if c.IsTrue() {
			return nil
		}
		if c.IsFalse() {
			e.end("infeasible", "assume false")
		}
		switch e.sol.Check(c) {
		case Unsat:
			e.end("infeasible", "assumption unsatisfiable")
		case Unknown:
			e.end("inconclusive", "assume: solver unknown at "+e.curSite())
		}
		e.assertPC(c)
		return nil
	}
	b["verifAssert"] = func(e *Exec, fn *ssa.Function, a []Value) Value {
		c := a[0].(*Term)
		tag := e.str(a[1])
		e.nAsserts++
		if c.IsTrue() {
			return nil
		}
		nc := e.tb.BNot(c)
		v := Unsat
		if !e.known[c.id] {
			v = e.sol.Check(nc)
		}
		switch v {
		case Unknown:
			e.end("inconclusive", "assert "+tag+": solver unknown")
		case Sat:
			site := "?"
			if len(e.stack) >= 2 {
				site = e.siteOf(e.stack[len(e.stack)-1])
			}
			e.reportViolation("assert", tag, site, nc)
			// The failed assertion is NOT assumed afterwards: a later assertion (possibly of
			// another property, which a different check reports) must see the same states.
			// What the harness does after a failed assertion is not part of any claim.
			e.pathViolated = true
		default:
			e.known[c.id] = true
		}
		return nil
	}
	b["verifReach"] = func(e *Exec, fn *ssa.Function, a []Value) Value {
		e.reached[e.str(a[0])] = true
		return nil
	}
	b["verifObserve"] = func(e *Exec, fn *ssa.Function, a []Value) Value {
		o := Observation{Tag: e.str(a[0])}
		if s, ok := a[1].(Slice); ok && s.base.obj != nil {
			n := e.concretize(s.len, "observe args")
			off := e.concretize(s.off, "observe args")
			v := e.load(s.base).(Vec)
			for i := uint64(0); i < n; i++ {
				o.Vals = append(o.Vals, e.deepSnapshot(v[off+i], 0))
			}
		}
		e.obs = append(e.obs, o)
		return nil
	}
	b["verifBytesEq"] = func(e *Exec, fn *ssa.Function, a []Value) Value {
		return e.bytesEq(a[0], a[1])
	}
	// verifFuncName: the name of a function value (closures additionally show their constant
	// captured values, so that makeDup(3) and makeDup(4) differ)
	b["verifFuncName"] = func(e *Exec, fn *ssa.Function, a []Value) Value {
		ifc, _ := a[0].(Iface)
		f, _ := ifc.val.(*Func)
		if ifc.typ == nil || f == nil || f.fn == nil {
			return e.strConst("")
		}
		name := f.fn.Name()
		for _, fv := range f.free {
			if t, ok := fv.(*Term); ok && t.IsConst() {
				name += "[" + t.val.String() + "]"
			} else if p, ok := fv.(Ptr); ok && p.obj != nil {
				if t, ok := e.load(p).(*Term); ok && t.IsConst() {
					name += "[" + t.val.String() + "]"
				}
			}
		}
		return e.strConst(name)
	}
	// verifCloneBytes: an independent copy with the same content (a snapshot of the array term,
	// so that two executions started from "the same bytes" build syntactically equal terms)
	b["verifCloneBytes"] = func(e *Exec, fn *ssa.Function, a []Value) Value {
		s := a[0].(Slice)
		if s.base.obj == nil {
			return s
		}
		ba := e.load(s.base).(BArr)
		o := e.newObj(BArr{ba.t, -1}, nil, "clone")
		return Slice{base: Ptr{obj: o}, off: s.off, len: s.len, cap: s.len, max: s.max}
	}
	b["verifAnd"] =func(e *Exec, fn *ssa.Function, a []Value) Value { return e.tb.BAnd(a[0].(*Term), a[1].(*Term)) }
	b["verifOr"] = func(e *Exec, fn *ssa.Function, a []Value) Value { return e.tb.BOr(a[0].(*Term), a[1].(*Term)) }
	b["verifNot"] = func(e *Exec, fn *ssa.Function, a []Value) Value { return e.tb.BNot(a[0].(*Term)) }
	b["verifImplies"] = func(e *Exec, fn *ssa.Function, a []Value) Value {
		return e.tb.Implies(a[0].(*Term), a[1].(*Term))
	}
	b["verifIteU64"] = func(e *Exec, fn *ssa.Function, a []Value) Value {
		return e.tb.Ite(a[0].(*Term), a[1].(*Term), a[2].(*Term))
	}
	b["verifIteU8"] = b["verifIteU64"]
	b["verifKnown"] = func(e *Exec, fn *ssa.Function, a []Value) Value {
		id := e.str(a[0])
		c := a[1].(*Term)
		if e.branch(c) {
			e.knownRegion = id
			return e.tb.True()
		}
		return e.tb.False()
	}
	b["verifParam"] = func(e *Exec, fn *ssa.Function, a []Value) Value {
		n := e.str(a[0])
		v, ok := e.h.Params[n]
		if !ok {
			panic(unsupported("harness parameter not configured: " + n))
		}
		return e.tb.BVu(v, 64)
	}
	b["verifSymbolic"] = func(e *Exec, fn *ssa.Function, a []Value) Value { return e.tb.True() }
	b["verifWorkAlloc"] = func(e *Exec, fn *ssa.Function, a []Value) Value { return e.workAlloc }
	b["verifWorkCopy"] = func(e *Exec, fn *ssa.Function, a []Value) Value { return e.workCopy }
	b["verifConcretize"] = func(e *Exec, fn *ssa.Function, a []Value) Value {
		return e.tb.BVu(e.concretize(a[0].(*Term), "verifConcretize"), 64)
	}
	b["verifKeccak"] = func(e *Exec, fn *ssa.Function, a []Value) Value {
		arr, off, n, max, _ := e.bytesOf(a[0])
		return BArr{e.bytesFromWord(e.keccakTerm(arr, off, n, max), 32), 32}
	}
	// verifUF32(name, args ...[]byte) [32]byte and friends
	ufGeneric := func(w int) intrinsicFn {
		return func(e *Exec, fn *ssa.Function, a []Value) Value {
			name := e.str(a[0])
			var args []*Term
			if s, ok := a[1].(Slice); ok && s.base.obj != nil {
				n := e.concretize(s.len, "uf args")
				off := e.concretize(s.off, "uf args")
				v := e.load(s.base).(Vec)
				for i := uint64(0); i < n; i++ {
					arr, o, ln, _, ok := e.bytesOf(v[off+i])
					if !ok {
						panic(unsupported("verifUF argument"))
					}
					c, ok := ln.ConstU64()
					if !ok {
						panic(unsupported("verifUF argument of symbolic length"))
					}
					if c > 0 {
						args = append(args, e.wordFromBytes(arr, o, int(c)))
					}
				}
			}
			t := e.tb.UF("uf_"+name, w, args...)
			e.ufs = append(e.ufs, ufRec{name: name, args: args, res: t})
			switch w {
			case 256:
				return BArr{e.bytesFromWord(t, 32), 32}
			case 64, SortBool:
				return t
			}
			panic("uf width")
		}
	}
	b["verifUF32"] = ufGeneric(256)
	b["verifUFU64"] = ufGeneric(64)
	b["verifUFBool"] = ufGeneric(SortBool)

	// ------------------------------------------------------------ math/bits
	I["math/bits.Add64"] = func(e *Exec, fn *ssa.Function, a []Value) Value {
		tb := e.tb
		x, y, c := tb.ZExt(a[0].(*Term), 65), tb.ZExt(a[1].(*Term), 65), tb.ZExt(a[2].(*Term), 65)
		s := tb.Bin(OpAdd, tb.Bin(OpAdd, x, y), c)
		return Tuple{tb.Extract(s, 63, 0), tb.ZExt(tb.Extract(s, 64, 64), 64)}
	}
	I["math/bits.Sub64"] = func(e *Exec, fn *ssa.Function, a []Value) Value {
		tb := e.tb
		x, y, c := tb.ZExt(a[0].(*Term), 65), tb.ZExt(a[1].(*Term), 65), tb.ZExt(a[2].(*Term), 65)
		s := tb.Bin(OpSub, tb.Bin(OpSub, x, y), c)
		return Tuple{tb.Extract(s, 63, 0), tb.ZExt(tb.Extract(s, 64, 64), 64)}
	}
	I["math/bits.Mul64"] = func(e *Exec, fn *ssa.Function, a []Value) Value {
		tb := e.tb
		p := tb.Bin(OpMul, tb.ZExt(a[0].(*Term), 128), tb.ZExt(a[1].(*Term), 128))
		return Tuple{tb.Extract(p, 127, 64), tb.Extract(p, 63, 0)}
	}
	I["math/bits.Len64"] = func(e *Exec, fn *ssa.Function, a []Value) Value { return e.bitLen(a[0].(*Term)) }
	I["math/bits.Len"] = I["math/bits.Len64"]
	I["math/bits.LeadingZeros64"] = func(e *Exec, fn *ssa.Function, a []Value) Value {
		return e.tb.Bin(OpSub, e.tb.BVu(64, 64), e.bitLen(a[0].(*Term)))
	}
	I["math/bits.ReverseBytes64"] = func(e *Exec, fn *ssa.Function, a []Value) Value {
		tb := e.tb
		x := a[0].(*Term)
		var r *Term
		for i := 0; i < 8; i++ {
			b := tb.Extract(x, 8*i+7, 8*i)
			if r == nil {
				r = b
			} else {
				r = tb.Concat(r, b)
			}
		}
		return r
	}

	// ------------------------------------------------------------ uint256 (branchy or heavy kernels)
	bin256 := func(f func(e *Exec, x, y *Term) *Term) intrinsicFn {
		return func(e *Exec, fn *ssa.Function, a []Value) Value {
			r := f(e, e.u256Load(a[1]), e.u256Load(a[2]))
			e.store(a[0].(Ptr), e.u256Vec(r))
			return a[0]
		}
	}
	zero256 := func(e *Exec) *Term { return e.tb.BVu(0, 256) }
	I["(*"+u256+".Int).Div"] = bin256(func(e *Exec, x, y *Term) *Term {
		tb := e.tb
		if y.IsConst() && y.val.BitLen() > 0 && new(big.Int).And(y.val, new(big.Int).Sub(y.val, bigOne)).Sign() == 0 {
			return tb.Bin(OpLShr, x, tb.BVu(uint64(y.val.BitLen()-1), 256))
		}
		return tb.Ite(tb.Eq(y, zero256(e)), zero256(e), tb.Bin(OpUDiv, x, y))
	})
	I["(*"+u256+".Int).Mod"] = bin256(func(e *Exec, x, y *Term) *Term {
		tb := e.tb
		return tb.Ite(tb.Eq(y, zero256(e)), zero256(e), tb.Bin(OpURem, x, y))
	})
	I["(*"+u256+".Int).Mul"] = bin256(func(e *Exec, x, y *Term) *Term { return e.tb.Bin(OpMul, x, y) })
	I["(*"+u256+".Int).SDiv"] = bin256(func(e *Exec, x, y *Term) *Term {
		tb := e.tb
		return tb.Ite(tb.Eq(y, zero256(e)), zero256(e), tb.Bin(OpSDiv, x, y))
	})
	I["(*"+u256+".Int).SMod"] = bin256(func(e *Exec, x, y *Term) *Term {
		tb := e.tb
		return tb.Ite(tb.Eq(y, zero256(e)), zero256(e), tb.Bin(OpSRem, x, y))
	})
	I["(*"+u256+".Int).Exp"] = bin256(func(e *Exec, x, y *Term) *Term { return e.tb.UF("u256_exp", 256, x, y) })
	tern256 := func(name string) intrinsicFn {
		return func(e *Exec, fn *ssa.Function, a []Value) Value {
			r := e.tb.UF(name, 256, e.u256Load(a[1]), e.u256Load(a[2]), e.u256Load(a[3]))
			e.store(a[0].(Ptr), e.u256Vec(r))
			return a[0]
		}
	}
	I["(*"+u256+".Int).AddMod"] = tern256("u256_addmod")
	I["(*"+u256+".Int).MulMod"] = tern256("u256_mulmod")
	I["(*"+u256+".Int).BitLen"] = func(e *Exec, fn *ssa.Function, a []Value) Value { return e.bitLen(e.u256Load(a[0])) }
	I["(*"+u256+".Int).ByteLen"] = func(e *Exec, fn *ssa.Function, a []Value) Value { return e.byteLen(e.u256Load(a[0])) }
	I["(*"+u256+".Int).SetFromBig"] = func(e *Exec, fn *ssa.Function, a []Value) Value {
		bv := e.load(a[1].(Ptr)).(BigV)
		e.store(a[0].(Ptr), e.u256Vec(bv.t))
		return e.tb.False()
	}
	I["(*"+u256+".Int).ToBig"] = func(e *Exec, fn *ssa.Function, a []Value) Value {
		return Ptr{obj: e.newObj(BigV{e.u256Load(a[0])}, nil, "big")}
	}
	I["(*"+u256+".Int).Cmp"] = func(e *Exec, fn *ssa.Function, a []Value) Value {
		tb := e.tb
		x, y := e.u256Load(a[0]), e.u256Load(a[1])
		return tb.Ite(tb.Cmp(OpUlt, x, y), tb.BVi(-1, 64), tb.Ite(tb.Eq(x, y), tb.BVu(0, 64), tb.BVu(1, 64)))
	}
	I["(*"+u256+".Int).SignExtend"] = func(e *Exec, fn *ssa.Function, a []Value) Value {
		r := e.tb.UF("u256_signextend", 256, e.u256Load(a[1]), e.u256Load(a[2]))
		e.store(a[0].(Ptr), e.u256Vec(r))
		return a[0]
	}

	// ------------------------------------------------------------ math/big (values in [0,2^256))
	bigOf := func(e *Exec, v Value) *Term {
		p := v.(Ptr)
		if p.obj == nil {
			e.goPanic("runtime error: invalid memory address or nil pointer dereference (nil *big.Int)")
		}
		return e.load(p).(BigV).t
	}
	I["math/big.NewInt"] = func(e *Exec, fn *ssa.Function, a []Value) Value {
		x := a[0].(*Term)
		if !e.branch(e.tb.Cmp(OpSle, e.tb.BVu(0, 64), x)) {
			panic(unsupported("negative big.Int"))
		}
		return Ptr{obj: e.newObj(BigV{e.tb.ZExt(x, 256)}, nil, "big")}
	}
	I["(*math/big.Int).Sign"] = func(e *Exec, fn *ssa.Function, a []Value) Value {
		t := bigOf(e, a[0])
		return e.tb.Ite(e.tb.Eq(t, e.tb.BVu(0, 256)), e.tb.BVu(0, 64), e.tb.BVu(1, 64))
	}
	I["(*math/big.Int).Cmp"] = func(e *Exec, fn *ssa.Function, a []Value) Value {
		tb := e.tb
		x, y := bigOf(e, a[0]), bigOf(e, a[1])
		return tb.Ite(tb.Cmp(OpUlt, x, y), tb.BVi(-1, 64), tb.Ite(tb.Eq(x, y), tb.BVu(0, 64), tb.BVu(1, 64)))
	}
	I["(*math/big.Int).Uint64"] = func(e *Exec, fn *ssa.Function, a []Value) Value {
		return e.tb.Extract(bigOf(e, a[0]), 63, 0)
	}
	I["(*math/big.Int).Int64"] = I["(*math/big.Int).Uint64"]
	I["(*math/big.Int).IsUint64"] = func(e *Exec, fn *ssa.Function, a []Value) Value {
		return e.tb.Eq(e.tb.Extract(bigOf(e, a[0]), 255, 64), e.tb.BVu(0, 192))
	}
	I["(*math/big.Int).BitLen"] = func(e *Exec, fn *ssa.Function, a []Value) Value { return e.bitLen(bigOf(e, a[0])) }
	I["(*math/big.Int).Set"] = func(e *Exec, fn *ssa.Function, a []Value) Value {
		e.store(a[0].(Ptr), BigV{bigOf(e, a[1])})
		return a[0]
	}
	I["(*math/big.Int).SetUint64"] = func(e *Exec, fn *ssa.Function, a []Value) Value {
		e.store(a[0].(Ptr), BigV{e.tb.ZExt(a[1].(*Term), 256)})
		return a[0]
	}
	I["(*math/big.Int).SetInt64"] = I["(*math/big.Int).SetUint64"]
	bigBin := func(op Op) intrinsicFn {
		return func(e *Exec, fn *ssa.Function, a []Value) Value {
			tb := e.tb
			x, y := tb.ZExt(bigOf(e, a[1]), 257), tb.ZExt(bigOf(e, a[2]), 257)
			r := tb.Bin(op, x, y)
			if !e.branch(tb.Eq(tb.Extract(r, 256, 256), tb.BVu(0, 1))) {
				e.handleLimit("oob", "big.Int result outside [0,2^256)")
			}
			e.store(a[0].(Ptr), BigV{tb.Extract(r, 255, 0)})
			return a[0]
		}
	}
	// products and quotients are computed at the narrowest width the operands' structure
	// allows (ubits is a sound upper bound on the bit length), then widened again
	narrow := func(tb *TermBank, t *Term, w int) *Term {
		if w >= t.w {
			return tb.ZExt(t, w)
		}
		return tb.Extract(t, w-1, 0)
	}
	I["(*math/big.Int).Mul"] = func(e *Exec, fn *ssa.Function, a []Value) Value {
		tb := e.tb
		x0, y0 := bigOf(e, a[1]), bigOf(e, a[2])
		w := ubits(x0, 0) + ubits(y0, 0)
		if w < 8 {
			w = 8
		}
		if w > 512 {
			w = 512
		}
		r := tb.Bin(OpMul, narrow(tb, x0, w), narrow(tb, y0, w))
		if w > 256 {
			if !e.branch(tb.Eq(tb.Extract(r, w-1, 256), tb.BVu(0, w-256))) {
				e.handleLimit("oob", "big.Int result outside [0,2^256)")
			}
		}
		e.store(a[0].(Ptr), BigV{narrow(tb, r, 256)})
		return a[0]
	}
	I["(*math/big.Int).Div"] = func(e *Exec, fn *ssa.Function, a []Value) Value {
		tb := e.tb
		x, y := bigOf(e, a[1]), bigOf(e, a[2])
		if !e.branch(tb.BNot(tb.Eq(y, tb.BVu(0, 256)))) {
			e.goPanic("division by zero")
		}
		w := ubits(x, 0)
		if wy := ubits(y, 0); wy > w {
			w = wy
		}
		if w < 8 {
			w = 8
		}
		if w > 256 {
			w = 256
		}
		e.store(a[0].(Ptr), BigV{tb.ZExt(tb.Bin(OpUDiv, narrow(tb, x, w), narrow(tb, y, w)), 256)})
		return a[0]
	}
	I["(*math/big.Int).Mod"] = func(e *Exec, fn *ssa.Function, a []Value) Value {
		tb := e.tb
		x, y := bigOf(e, a[1]), bigOf(e, a[2])
		if !e.branch(tb.BNot(tb.Eq(y, tb.BVu(0, 256)))) {
			e.goPanic("division by zero")
		}
		// over-approximated: some value below the modulus, a function of both operands
		uf := tb.UF("big_mod", 256, x, y)
		e.store(a[0].(Ptr), BigV{tb.Ite(tb.Cmp(OpUlt, uf, y), uf, tb.BVu(0, 256))})
		return a[0]
	}
	I["(*math/big.Int).Exp"] = func(e *Exec, fn *ssa.Function, a []Value) Value {
		// modular exponentiation with a non-nil modulus: uninterpreted, below 2^256
		m, _ := a[3].(Ptr)
		if m.obj == nil {
			panic(unsupported("big.Int.Exp without modulus"))
		}
		mod := bigOf(e, a[3])
		if !e.branch(e.tb.BNot(e.tb.Eq(mod, e.tb.BVu(0, 256)))) {
			panic(unsupported("big.Int.Exp with modulus 0"))
		}
		uf := e.tb.UF("big_exp", 256, bigOf(e, a[1]), bigOf(e, a[2]), mod)
		e.store(a[0].(Ptr), BigV{e.tb.Ite(e.tb.Cmp(OpUlt, uf, mod), uf, e.tb.BVu(0, 256))})
		return a[0]
	}
	I["(*math/big.Int).Add"] = bigBin(OpAdd)
	I["(*math/big.Int).Sub"] = bigBin(OpSub)
	I["(*math/big.Int).Bytes"] = func(e *Exec, fn *ssa.Function, a []Value) Value {
		t := bigOf(e, a[0])
		n := e.byteLen(t)
		e.workAlloc = e.tb.Bin(OpAdd, e.workAlloc, n)
		s := e.newBytes(e.bytesFromWord(t, 32), e.tb.Bin(OpSub, e.tb.BVu(32, 64), n), n, 32, "big.Bytes")
		s.minrep = t
		return s
	}
	I["(*"+u256+".Int).Bytes"] = func(e *Exec, fn *ssa.Function, a []Value) Value {
		t := e.u256Load(a[0])
		n := e.byteLen(t)
		e.workAlloc = e.tb.Bin(OpAdd, e.workAlloc, e.tb.BVu(32, 64))
		s := e.newBytes(e.bytesFromWord(t, 32), e.tb.Bin(OpSub, e.tb.BVu(32, 64), n), n, 32, "u256.Bytes")
		s.minrep = t
		return s
	}
	I["(*math/big.Int).SetBytes"] = func(e *Exec, fn *ssa.Function, a []Value) Value {
		arr, off, n, _, _ := e.bytesOf(a[1])
		c, ok := n.ConstU64()
		if !ok || c > 32 {
			panic(unsupported("big.Int.SetBytes of symbolic or long input"))
		}
		t := e.tb.BVu(0, 256)
		if c > 0 {
			t = e.tb.ZExt(e.wordFromBytes(arr, off, int(c)), 256)
		}
		e.store(a[0].(Ptr), BigV{t})
		return a[0]
	}
	I[gethCommon+".BigToHash"] = func(e *Exec, fn *ssa.Function, a []Value) Value {
		return BArr{e.bytesFromWord(bigOf(e, a[0]), 32), 32}
	}
	I[gethCommon+".BigToAddress"] = func(e *Exec, fn *ssa.Function, a []Value) Value {
		return BArr{e.bytesFromWord(e.tb.Extract(bigOf(e, a[0]), 159, 0), 20), 20}
	}
	I["("+gethCommon+".Hash).Big"] = func(e *Exec, fn *ssa.Function, a []Value) Value {
		h := a[0].(BArr)
		return Ptr{obj: e.newObj(BigV{e.wordFromBytes(h.t, e.tb.BVu(0, 64), 32)}, nil, "big")}
	}
	I["("+gethCommon+".Address).Big"] = func(e *Exec, fn *ssa.Function, a []Value) Value {
		h := a[0].(BArr)
		return Ptr{obj: e.newObj(BigV{e.tb.ZExt(e.wordFromBytes(h.t, e.tb.BVu(0, 64), 20), 256)}, nil, "big")}
	}
	I["(*math/big.Int).String"] = func(e *Exec, fn *ssa.Function, a []Value) Value { return e.freshStr("bigstr", 8) }

	// ------------------------------------------------------------ bytes, errors, fmt, log, sync
	// sort.Slice goes through reflection (Swapper); modelled as an insertion sort driven by the
	// caller's comparator: for a strict weak order every sorting algorithm yields the same
	// sequence up to the order of ties, and ties keep their input order here
	sortSlice := func(e *Exec, fn *ssa.Function, a []Value) Value {
		ifc, _ := a[0].(Iface)
		sl, ok := ifc.val.(Slice)
		if !ok {
			panic(unsupported("sort.Slice of a non-slice"))
		}
		n := int(e.concretize(sl.len, "sort.Slice length"))
		if n < 2 {
			return nil
		}
		off := int(e.concretize(sl.off, "sort.Slice offset"))
		if _, isBytes := e.load(sl.base).(BArr); isBytes {
			panic(unsupported("sort.Slice of a byte slice"))
		}
		for i := 1; i < n; i++ {
			for j := i; j > 0; j-- {
				r, _ := e.callValue(a[1], []Value{e.tb.BVu(uint64(j), 64), e.tb.BVu(uint64(j-1), 64)}, nil).(*Term)
				if r == nil || !e.branch(r) {
					break
				}
				pj, pk := sl.base.ext(PE{i: off + j}), sl.base.ext(PE{i: off + j - 1})
				vj, vk := e.load(pj), e.load(pk)
				e.store(pj, vk)
				e.store(pk, vj)
			}
		}
		return nil
	}
	// bytes.Compare: lexicographic order as one term (the body is assembly)
	I["bytes.Compare"] = func(e *Exec, fn *ssa.Function, a []Value) Value {
		tb := e.tb
		aa, ao, al, am, ok1 := e.bytesOf(a[0])
		ba, bo, bl, bm, ok2 := e.bytesOf(a[1])
		if !ok1 || !ok2 {
			panic(unsupported("bytes.Compare on non-byte slices"))
		}
		max := am
		if bm < max {
			max = bm
		}
		minus, zero, one := tb.BVi(-1, 64), tb.BVu(0, 64), tb.BVu(1, 64)
		res := tb.Ite(tb.Cmp(OpUlt, al, bl), minus, tb.Ite(tb.Cmp(OpUlt, bl, al), one, zero))
		lenCmp := res
		for i := max - 1; i >= 0; i-- {
			ix := tb.BVu(uint64(i), 64)
			x := tb.Select(aa, tb.Bin(OpAdd, ao, ix))
			y := tb.Select(ba, tb.Bin(OpAdd, bo, ix))
			inside := tb.BAnd(tb.Cmp(OpUlt, ix, al), tb.Cmp(OpUlt, ix, bl))
			res = tb.Ite(inside, tb.Ite(tb.Eq(x, y), res, tb.Ite(tb.Cmp(OpUlt, x, y), minus, one)), lenCmp)
		}
		return res
	}
	I["sort.Slice"] = sortSlice
	I["sort.SliceStable"] = sortSlice
	I["bytes.Equal"] = func(e *Exec, fn *ssa.Function, a []Value) Value { return e.bytesEq(a[0], a[1]) }
	I["errors.Is"] = func(e *Exec, fn *ssa.Function, a []Value) Value { return e.eqVal(a[0], a[1]) }
	I["fmt.Errorf"] = func(e *Exec, fn *ssa.Function, a []Value) Value { return e.errorsNew(e.freshStr("fmt.Errorf", 8)) }
	I["fmt.Sprintf"] = func(e *Exec, fn *ssa.Function, a []Value) Value { return e.freshStr("fmt.Sprintf", 8) }
	I["fmt.Sprint"] = I["fmt.Sprintf"]
	I["strings.ToLower"] = func(e *Exec, fn *ssa.Function, a []Value) Value {
		s := a[0].(Str)
		if c := e.strConcrete(s); c != "<symbolic string>" {
			return e.strConst(strings.ToLower(c))
		}
		// bytewise ASCII lowering of a bounded symbolic string
		tb := e.tb
		arr := tb.ConstArr()
		for k := 0; k < s.max; k++ {
			kk := tb.BVu(uint64(k), 64)
			b := tb.Select(s.arr, tb.Bin(OpAdd, s.off, kk))
			up := tb.BAnd(tb.Cmp(OpUle, tb.BVu('A', 8), b), tb.Cmp(OpUle, b, tb.BVu('Z', 8)))
			arr = tb.Store(arr, kk, tb.Ite(up, tb.Bin(OpAdd, b, tb.BVu(32, 8)), b))
		}
		return Str{arr: arr, off: tb.BVu(0, 64), len: s.len, max: s.max}
	}
	// encoders and decoders whose output content no property here depends on: opaque, total
	I["encoding/json.Marshal"] = func(e *Exec, fn *ssa.Function, a []Value) Value {
		s := e.freshStr("json.Marshal", 4)
		return Tuple{e.newBytes(s.arr, s.off, s.len, 4, "json"), Iface{}}
	}
	I["github.com/ethereum/go-ethereum/accounts/abi.UnpackRevert"] = func(e *Exec, fn *ssa.Function, a []Value) Value {
		if e.branch(e.fresh("abi.UnpackRevert.ok", SortBool)) {
			return Tuple{e.freshStr("revertreason", 4), Iface{}}
		}
		return Tuple{e.strConst(""), e.errorsNew(e.strConst("invalid data for unpacking"))}
	}
	I["fmt.Println"] = func(e *Exec, fn *ssa.Function, a []Value) Value {
		return Tuple{e.tb.BVu(0, 64), Iface{}}
	}
	I["fmt.Printf"] = I["fmt.Println"]
	I["(*sync.Pool).Get"] = func(e *Exec, fn *ssa.Function, a []Value) Value {
		st := e.load(a[0].(Ptr)).(Struct)
		nf := st[len(st)-1]
		return e.callValue(nf, nil, nil)
	}
	I["(*sync.Pool).Put"] = func(e *Exec, fn *ssa.Function, a []Value) Value { return nil }
	I["(*sync/atomic.Bool).Load"] = func(e *Exec, fn *ssa.Function, a []Value) Value {
		p := a[0].(Ptr)
		e.atomicAccess[p.obj] = true
		v := e.load(p.ext(PE{i: 1})).(*Term)
		if e.h.Params["concurrentabort"] == 1 && !e.inInit {
			// concurrent mode: another goroutine may have stored true since the last look;
			// the flag is monotone (nothing in the package stores false)
			seen := e.tb.Ite(e.fresh("abort.set.concurrently", SortBool), e.tb.BVu(1, 32), v)
			e.store(p.ext(PE{i: 1}), seen)
			v = seen
		}
		return e.tb.BNot(e.tb.Eq(v, e.tb.BVu(0, 32)))
	}
	I["(*sync/atomic.Bool).Store"] = func(e *Exec, fn *ssa.Function, a []Value) Value {
		p := a[0].(Ptr)
		e.atomicAccess[p.obj] = true
		e.store(p.ext(PE{i: 1}), e.tb.Ite(a[1].(*Term), e.tb.BVu(1, 32), e.tb.BVu(0, 32)))
		return nil
	}
	I["(*sync.Mutex).Lock"] = func(e *Exec, fn *ssa.Function, a []Value) Value { return nil }
	I["(*sync.Mutex).Unlock"] = I["(*sync.Mutex).Lock"]
	I["(*sync.RWMutex).Lock"] = I["(*sync.Mutex).Lock"]
	I["(*sync.RWMutex).Unlock"] = I["(*sync.Mutex).Lock"]
	I["(*sync.RWMutex).RLock"] = I["(*sync.Mutex).Lock"]
	I["(*sync.RWMutex).RUnlock"] = I["(*sync.Mutex).Lock"]
	for _, n := range []string{"Error", "Warn", "Info", "Debug", "Trace", "Crit"} {
		I["github.com/ethereum/go-ethereum/log."+n] = func(e *Exec, fn *ssa.Function, a []Value) Value { return nil }
	}

	// ------------------------------------------------------------ standard precompile kernels: opaque
	// (hash, curve, modexp kernels are outside the encoding; their callers see an arbitrary
	// output and an arbitrary success/failure, named by call order so that two relationally
	// compared executions receive the same answers)
	for _, pkg := range []string{"github.com/artela-network/artela-evm/vm", "github.com/ethereum/go-ethereum/core/vm"} {
		for _, ty := range []string{"ecrecover", "sha256hash", "ripemd160hash", "bigModExp", "blake2F",
			"bn256AddByzantium", "bn256AddIstanbul", "bn256PairingByzantium", "bn256PairingIstanbul",
			"bn256ScalarMulByzantium", "bn256ScalarMulIstanbul", "bls12381G1Add", "bls12381G1Mul", "bls12381G1MultiExp",
			"bls12381G2Add", "bls12381G2Mul", "bls12381G2MultiExp", "bls12381MapG1", "bls12381MapG2", "bls12381Pairing"} {
			ty := ty
			I["(*"+pkg+"."+ty+").Run"] = func(e *Exec, fn *ssa.Function, a []Value) Value {
				// uninterpreted functions of the input: equal inputs give equal answers (also across
				// the two sides of a relational harness)
				tb := e.tb
				arr, off, n, max, _ := e.bytesOf(a[len(a)-1])
				h := e.keccakTerm(arr, off, n, max)
				word := tb.UF("pre_out_"+ty, 64, h)
				ln := tb.Bin(OpURem, tb.ZExt(tb.UF("pre_len_"+ty, 8, h), 64), tb.BVu(9, 64))
				out := e.newBytes(e.bytesFromWord(word, 8), tb.BVu(0, 64), ln, 8, "precompile-out")
				if e.branch(tb.UF("pre_ok_"+ty, SortBool, h)) {
					return Tuple{out, Iface{}}
				}
				return Tuple{Slice{off: tb.BVu(0, 64), len: tb.BVu(0, 64), cap: tb.BVu(0, 64)}, e.errorsNew(e.strConst("precompile failed"))}
			}
			if ty == "bigModExp" || ty == "blake2F" {
				I["(*"+pkg+"."+ty+").RequiredGas"] = func(e *Exec, fn *ssa.Function, a []Value) Value {
					arr, off, n, max, _ := e.bytesOf(a[len(a)-1])
					return e.tb.UF("pre_gas_"+ty, 64, e.keccakTerm(arr, off, n, max))
				}
			}
		}
	}

	// ------------------------------------------------------------ hashing
	keccakOfVariadic := func(e *Exec, v Value) *Term {
		s := v.(Slice)
		n := e.concretize(s.len, "keccak args")
		if n == 0 {
			return e.keccakTerm(e.tb.ConstArr(), e.tb.BVu(0, 64), e.tb.BVu(0, 64), 0)
		}
		if n != 1 {
			panic(unsupported("keccak of several byte slices"))
		}
		off := e.concretize(s.off, "keccak args")
		arr, o, ln, max, _ := e.bytesOf(e.load(s.base).(Vec)[off])
		return e.keccakTerm(arr, o, ln, max)
	}
	I[gethCrypto+".Keccak256Hash"] = func(e *Exec, fn *ssa.Function, a []Value) Value {
		return BArr{e.bytesFromWord(keccakOfVariadic(e, a[0]), 32), 32}
	}
	I[gethCrypto+".Keccak256"] = func(e *Exec, fn *ssa.Function, a []Value) Value {
		return e.newBytes(e.bytesFromWord(keccakOfVariadic(e, a[0]), 32), e.tb.BVu(0, 64), e.tb.BVu(32, 64), 32, "keccak")
	}
	I[gethCrypto+".CreateAddress"] = func(e *Exec, fn *ssa.Function, a []Value) Value {
		addr := a[0].(BArr)
		t := e.tb.UF("create_address", 160, e.wordFromBytes(addr.t, e.tb.BVu(0, 64), 20), a[1].(*Term))
		return BArr{e.bytesFromWord(t, 20), 20}
	}
	I[gethCrypto+".CreateAddress2"] = func(e *Exec, fn *ssa.Function, a []Value) Value {
		addr := a[0].(BArr)
		salt := a[1].(BArr)
		arr, off, n, max, _ := e.bytesOf(a[2])
		t := e.tb.UF("create_address2", 160, e.wordFromBytes(addr.t, e.tb.BVu(0, 64), 20),
			e.wordFromBytes(salt.t, e.tb.BVu(0, 64), 32), e.keccakTerm(arr, off, n, max))
		return BArr{e.bytesFromWord(t, 20), 20}
	}
}

// ubits is a structural upper bound on the bit length of an unsigned bit-vector term
// (value < 2^ubits); it never exceeds the term's width.
func ubits(t *Term, depth int) int {
	if t.w <= 0 {
		return 0
	}
	if depth > 40 {
		return t.w
	}
	sub := func(i int) int { return ubits(t.args[i], depth+1) }
	maxi := func(a, b int) int {
		if a > b {
			return a
		}
		return b
	}
	mini := func(a, b int) int {
		if a < b {
			return a
		}
		return b
	}
	r := t.w
	switch t.op {
	case OpConst:
		r = t.val.BitLen()
	case OpZExt:
		r = sub(0)
	case OpExtract:
		r = sub(0) - t.b
		if r < 0 {
			r = 0
		}
	case OpAdd:
		r = maxi(sub(0), sub(1)) + 1
	case OpMul:
		r = sub(0) + sub(1)
	case OpUDiv, OpLShr, OpURem:
		r = sub(0)
	case OpAnd:
		r = mini(sub(0), sub(1))
	case OpOr, OpXor:
		r = maxi(sub(0), sub(1))
	case OpIte:
		r = maxi(sub(1), sub(2))
	case OpConcat:
		if h := sub(0); h == 0 {
			r = sub(1)
		} else {
			r = t.args[1].w + h
		}
	}
	if r > t.w {
		r = t.w
	}
	return r
}

func minrepOf(v Value) *Term {
	switch s := v.(type) {
	case Slice:
		return s.minrep
	case Str:
		return s.minrep
	}
	return nil
}

func (e *Exec) bytesEq(a, b Value) *Term {
	aa, ao, al, am, ok1 := e.bytesOf(a)
	ba, bo, bl, bm, ok2 := e.bytesOf(b)
	if !ok1 || !ok2 {
		panic(unsupported("bytes equality on non-byte slices"))
	}
	return e.eqStr(Str{arr: aa, off: ao, len: al, max: am, minrep: minrepOf(a)}, Str{arr: ba, off: bo, len: bl, max: bm, minrep: minrepOf(b)})
}

// deepSnapshot copies a value for an observation log, following pointers so
// that later mutation does not affect the record.
func (e *Exec) deepSnapshot(v Value, depth int) Value {
	if depth > 6 {
		return nil
	}
	switch x := v.(type) {
	case Iface:
		if x.typ == nil {
			return x
		}
		return Iface{typ: x.typ, val: e.deepSnapshot(x.val, depth+1)}
	case Slice:
		arr, off, n, max, ok := e.bytesOf(x)
		if ok {
			return Str{arr: arr, off: off, len: n, max: max}
		}
		if x.base.obj == nil {
			return Vec{}
		}
		ln, ok1 := x.len.ConstU64()
		of, ok2 := x.off.ConstU64()
		if !ok1 || !ok2 {
			return nil
		}
		src := e.load(x.base).(Vec)
		out := make(Vec, ln)
		for i := range out {
			out[i] = e.deepSnapshot(src[of+uint64(i)], depth+1)
		}
		return out
	case Ptr:
		if x.obj == nil {
			return x
		}
		if _, isErr := x.obj.val.(Struct); isErr && strings.Contains(x.obj.tag, "error") {
			return e.deepSnapshot(e.load(x), depth+1)
		}
		if bv, ok := x.obj.val.(BigV); ok && len(x.path) == 0 {
			return bv
		}
		return x
	case Struct:
		out := make(Struct, len(x))
		for i := range x {
			out[i] = e.deepSnapshot(x[i], depth+1)
		}
		return out
	case Vec:
		out := make(Vec, len(x))
		for i := range x {
			out[i] = e.deepSnapshot(x[i], depth+1)
		}
		return out
	}
	return v
}
