package main

import (
	"encoding/json"
	"fmt"
	"os"
	"path/filepath"
	"sort"
	"strings"
	"sync"
	"time"

	"golang.org/x/tools/go/packages"
	"golang.org/x/tools/go/ssa"
	"golang.org/x/tools/go/ssa/ssautil"
)

// Harness describes one symbolic-execution entry point and its bounds.
type Harness struct {
	Name          string            `json:"name"`
	Pkg           string            `json:"pkg"`  // import path suffix, e.g. "vm"
	Func          string            `json:"func"` // Go function in that package
	Args          []uint64          `json:"args,omitempty"`
	Props         []string          `json:"props"`
	Tier          string            `json:"tier,omitempty"` // "" both, "thorough" only there
	Unroll        int               `json:"unroll,omitempty"`
	BufMax        int               `json:"bufmax,omitempty"`
	MaxSteps      int               `json:"maxsteps,omitempty"`
	MaxPaths      int               `json:"maxpaths,omitempty"`
	OnLimit       map[string]string `json:"onlimit,omitempty"`
	MapOrder      string            `json:"maporder,omitempty"`
	ExpectPanic   bool              `json:"expectpanic,omitempty"`
	Redirect      map[string]string `json:"redirect,omitempty"`
	Reach         []string          `json:"reach,omitempty"` // tags that must be reached
	Thorough      *Harness          `json:"thorough,omitempty"`
	Params        map[string]uint64 `json:"params,omitempty"` // values for verifParam(name)
	Note          string            `json:"note,omitempty"`
	Rel           string            `json:"rel,omitempty"` // relational partner harness name
	TimeoutMs     int               `json:"timeout_ms,omitempty"`
	TimeCapS      int               `json:"timecap_s,omitempty"`
	ConcreteMake  bool              `json:"concrete_make,omitempty"`
	NoWitness     bool              `json:"nowitness,omitempty"`
	OOBHook       string            `json:"oobhook,omitempty"` // harness function called with the size of an allocation beyond the buffer bound
	Real          []string          `json:"real,omitempty"`    // summaries switched off for this harness (substring of the function's full name): the real SSA runs
	SharedWrites  bool              `json:"-"` // report writes of the code under test to package-level memory (C16/C17 checks)
	PropsThorough []string          `json:"props_thorough,omitempty"`
}

type Engine struct {
	prog     *ssa.Program
	pkgs     map[string]*ssa.Package // by import path
	repo     string
	intr     map[string]intrinsicFn
	bare     map[string]intrinsicFn
	loadTime time.Duration
	mu       sync.Mutex
	redirMu  sync.Mutex
	redirC   map[string]*ssa.Function
	fnHash   map[string]string

	maxWorkers int
	tokens     chan struct{}
}

// defaultRedirects send library entry points to implementations in the harness
// runtime of the package under test.
var defaultRedirects = map[string]string{
	"github.com/ethereum/go-ethereum/crypto.NewKeccakState": "verifNewKeccakState",
}

type intrinsicFn func(e *Exec, fn *ssa.Function, args []Value) Value

func (g *Engine) intrinsic(fn *ssa.Function) intrinsicFn {
	name := fn.Name()
	if strings.HasPrefix(name, "verif") && fn.Signature.Recv() == nil {
		if h, ok := g.bare[name]; ok {
			return h
		}
	}
	if fn.Pkg == nil && fn.Origin() == nil && fn.Signature.Recv() == nil {
		return nil
	}
	if h, ok := g.intr[fn.String()]; ok {
		return h
	}
	if o := fn.Origin(); o != nil {
		if h, ok := g.intr[o.String()]; ok {
			return h
		}
	}
	return nil
}

// redirect maps a callee to a harness-provided replacement function.
func (g *Engine) redirect(fn *ssa.Function, h *Harness) *ssa.Function {
	if fn.Pkg == nil {
		return nil
	}
	to, ok := h.Redirect[fn.String()]
	if !ok {
		to, ok = defaultRedirects[fn.String()]
		if !ok {
			return nil
		}
		to = h.Pkg + "." + to
	}
	g.redirMu.Lock()
	defer g.redirMu.Unlock()
	if r, ok := g.redirC[to]; ok {
		return r
	}
	// "pkgpath.Func"
	i := strings.LastIndex(to, ".")
	p := g.findPkg(to[:i])
	if p == nil {
		panic(unsupported("redirect target package " + to))
	}
	r := p.Func(to[i+1:])
	if r == nil {
		panic(unsupported("redirect target " + to))
	}
	g.redirC[to] = r
	return r
}

func (g *Engine) findPkg(suffix string) *ssa.Package {
	if p, ok := g.pkgs[suffix]; ok {
		return p
	}
	var best *ssa.Package
	for path, p := range g.pkgs {
		if strings.HasSuffix(path, "/"+suffix) {
			if strings.HasPrefix(path, "github.com/artela-network/artela-evm/") {
				return p
			}
			if best == nil || path < best.Pkg.Path() {
				best = p
			}
		}
	}
	return best
}

// ensureInit runs the package initialiser (concretely) the first time one of
// the package's globals is touched.
func (g *Engine) ensureInit(e *Exec, p *ssa.Package) {
	if e.initDone[p] {
		return
	}
	e.initDone[p] = true
	initFn := p.Func("init")
	if initFn == nil || initFn.Blocks == nil {
		return
	}
	was := e.inInit
	e.inInit = true
	savedStack := e.stack
	defer func() {
		e.stack = savedStack
		e.inInit = was
	}()
	fr := &frame{fn: initFn, locals: map[ssa.Value]Value{}}
	e.stack = append(e.stack, fr)
	if e.strictInit[p] {
		e.runFrame(fr, len(e.stack))
		return
	}
	// dependency package: an initialiser the engine cannot run leaves the package partly
	// initialised (recorded); it must not take the path down
	func() {
		defer func() {
			if r := recover(); r != nil {
				switch r.(type) {
				case *unsupportedErr, *goPanic:
					e.initSkips = append(e.initSkips, p.Pkg.Path()+": initialiser aborted")
				default:
					panic(r)
				}
			}
		}()
		e.runFrame(fr, len(e.stack))
	}()
}

func loadEngine(repo string, harnessDir string, extraPkgs []string) (*Engine, error) {
	t0 := time.Now()
	overlay := map[string][]byte{}
	err := filepath.Walk(harnessDir, func(p string, info os.FileInfo, err error) error {
		if err != nil || info.IsDir() || !strings.HasSuffix(p, ".go") {
			return err
		}
		rel, _ := filepath.Rel(harnessDir, p)
		parts := strings.SplitN(rel, string(filepath.Separator), 2)
		if len(parts) < 2 {
			return nil
		}
		// harness/<pkgdir with __ for slashes>/<file>.go -> <repo>/<pkgdir>/zz_verif_<file>.go
		dir := strings.ReplaceAll(parts[0], "__", "/")
		b, err := os.ReadFile(p)
		if err != nil {
			return err
		}
		var dst string
		if strings.HasPrefix(dir, "MOD/") {
			dst = filepath.Join(modCache(), dir[4:], "zz_verif_"+filepath.Base(p))
		} else {
			dst = filepath.Join(repo, dir, "zz_verif_"+filepath.Base(p))
		}
		if strings.HasSuffix(p, "_test.go") {
			return nil
		}
		overlay[dst] = b
		return nil
	})
	if err != nil {
		return nil, err
	}
	if err := addRuntime(harnessDir, repo, overlay); err != nil {
		return nil, err
	}
	cuts, err := cutFiles(harnessDir, repo)
	if err != nil {
		return nil, err
	}
	for f, b := range cuts {
		overlay[f] = b
	}
	cfg := &packages.Config{
		Mode:       packages.LoadAllSyntax,
		Dir:        repo,
		BuildFlags: []string{"-tags=verif"},
		Env:        append(os.Environ(), "GOFLAGS=-mod=mod", "GOPROXY=off", "GOSUMDB=off", "GOTOOLCHAIN=local"),
		Overlay:    overlay,
	}
	pats := append([]string{"./vm", "./core", "./tracers/...", "./vm/runtime"}, extraPkgs...)
	pkgs, err := packages.Load(cfg, pats...)
	if err != nil {
		return nil, err
	}
	nerr := 0
	packages.Visit(pkgs, nil, func(p *packages.Package) {
		for _, e := range p.Errors {
			if nerr < 20 {
				fmt.Fprintln(os.Stderr, "load error:", e)
			}
			nerr++
		}
	})
	if nerr > 0 {
		return nil, fmt.Errorf("%d package load errors", nerr)
	}
	prog, _ := ssautil.AllPackages(pkgs, ssa.InstantiateGenerics)
	prog.Build()
	g := &Engine{prog: prog, pkgs: map[string]*ssa.Package{}, repo: repo, redirC: map[string]*ssa.Function{}, fnHash: map[string]string{}}
	for _, p := range prog.AllPackages() {
		g.pkgs[p.Pkg.Path()] = p
	}
	g.registerIntrinsics()
	g.loadTime = time.Since(t0)
	return g, nil
}

func modCache() string {
	if v := os.Getenv("GOMODCACHE"); v != "" {
		return v
	}
	home, _ := os.UserHomeDir()
	return filepath.Join(home, "go", "pkg", "mod")
}

// HarnessResult aggregates one harness exploration.
type HarnessResult struct {
	H          *Harness
	Paths      []PathResult
	Violations []Violation
	Status     map[string]int
	Reached    map[string]int
	Queries    [3]int
	SolveTime  time.Duration
	Wall       time.Duration
	Instr      int
	Problems   []string // inconclusive reasons
	Shared     map[string]string
	Funcs      map[string]bool
	InitSkips  map[string]bool
	Escalated  int
	Asserts    int
}

func (g *Engine) runHarness(h *Harness, solverKind string, timeoutMs int) (res *HarnessResult) {
	t0 := time.Now()
	res = &HarnessResult{H: h, Status: map[string]int{}, Reached: map[string]int{}, Funcs: map[string]bool{}, InitSkips: map[string]bool{}}
	defer func() {
		res.Wall = time.Since(t0)
		if r := recover(); r != nil {
			if u, ok := r.(*unsupportedErr); ok {
				res.Problems = append(res.Problems, "unsupported: "+u.msg)
				return
			}
			panic(r)
		}
	}()
	if h.Unroll == 0 {
		h.Unroll = 4
	}
	if h.BufMax == 0 {
		h.BufMax = 1024
	}
	if h.MaxSteps == 0 {
		h.MaxSteps = 3000000
	}
	if h.MaxPaths == 0 {
		h.MaxPaths = 20000
	}
	if h.TimeCapS == 0 {
		h.TimeCapS = 900
	}
	if h.TimeoutMs > 0 {
		timeoutMs = h.TimeoutMs
	}
	p := g.findPkg(h.Pkg)
	if p == nil {
		res.Problems = append(res.Problems, "package not found: "+h.Pkg)
		return
	}
	fn := p.Func(h.Func)
	if fn == nil {
		res.Problems = append(res.Problems, "harness function not found: "+h.Func)
		return
	}
	// The decision tree is explored by a pool of workers.  A work item is a
	// decision prefix; a worker explores the subtree below it depth-first and
	// donates its shallowest pending alternative whenever another worker is idle.
	var mu sync.Mutex
	cond := sync.NewCond(&mu)
	queue := [][]decision{{}}
	idle, nPaths, done := 0, 0, false
	var spent time.Duration
	tStart := t0
	nWorkers, nSpawned := 1, 1
	var spawn func(w int)
	vioSeen := map[string]bool{}
	take := func() ([]decision, bool) {
		mu.Lock()
		defer mu.Unlock()
		idle++
		for len(queue) == 0 && !done {
			if idle == nWorkers {
				done = true
				cond.Broadcast()
				break
			}
			cond.Wait()
		}
		if done && len(queue) == 0 {
			return nil, false
		}
		idle--
		it := queue[len(queue)-1]
		queue = queue[:len(queue)-1]
		return it, true
	}
	worker := func(wid int) {
		tb := NewTermBank()
		sol, err := NewSolver(solverKind, tb, timeoutMs)
		if err != nil {
			mu.Lock()
			res.Problems = append(res.Problems, "solver: "+err.Error())
			mu.Unlock()
			return
		}
		defer sol.Close()
		if lf := os.Getenv("GOSYM_SMTLOG"); lf != "" && wid == 0 {
			f, _ := os.Create(lf + "." + h.Name + ".smt2")
			sol.logw = f
			defer f.Close()
		}
		e := &Exec{prog: g.prog, eng: g, tb: tb, sol: sol, h: h,
			globals: map[*ssa.Global]*Obj{}, initSnap: map[*Obj]Value{}, initDone: map[*ssa.Package]bool{},
			sharedWrites: map[string]string{}, allReached: map[string]int{}, vioSeen: map[string]bool{},
			atomicAccess: map[*Obj]bool{}, strictInit: map[*ssa.Package]bool{}, funcsSeen: map[string]bool{}, strCache: map[string]*Term{}, known: map[int]bool{}, varSeq: map[string]int{}}
		e.workAlloc, e.workCopy = tb.BVu(0, 64), tb.BVu(0, 64)
		if wid > 0 || h.NoWitness {
			// witnesses are taken by the first worker only; harnesses whose paths depend on
			// hash values (uninterpreted symbolically, real natively) opt out
			e.nWitness = 1 << 20
		}
		// package initialisation of the package under test (concrete)
		e.inInit = true
		for path, sp := range g.pkgs {
			if strings.HasPrefix(path, "github.com/artela-network/artela-evm/") {
				e.strictInit[sp] = true
			}
		}
		initOK := true
		func() {
			defer func() {
				if r := recover(); r != nil {
					initOK = false
					mu.Lock()
					defer mu.Unlock()
					switch x := r.(type) {
					case *unsupportedErr:
						res.Problems = append(res.Problems, "unsupported during init: "+x.msg+" at "+e.curSite())
					case *goPanic:
						res.Problems = append(res.Problems, "panic during init: "+x.msg+" at "+x.site)
					default:
						panic(r)
					}
				}
			}()
			g.ensureInit(e, p)
		}()
		e.inInit = false
		e.snapshotInit()
		var args []Value
		for i, a := range h.Args {
			w := typeWidth(fn.Params[i].Type())
			args = append(args, tb.BVu(a, w))
		}
		var local []PathResult
		for initOK {
			item, ok := take()
			if !ok {
				break
			}
			lastTick := time.Now()
			e.decisions = item
			e.floor = len(item)
			for {
				mu.Lock()
				nPaths++
				over := nPaths > h.MaxPaths
				why := fmt.Sprintf("path cap %d reached", h.MaxPaths)
				// the time cap is a budget of worker time (cap x pool size), so that it does not
				// depend on how many harnesses share the pool in this process
				now := time.Now()
				spent += now.Sub(lastTick)
				lastTick = now
				if h.TimeCapS > 0 && (spent > time.Duration(h.TimeCapS)*time.Second*time.Duration(g.maxWorkers) || time.Since(tStart) > 4*time.Duration(h.TimeCapS)*time.Second) {
					over, why = true, fmt.Sprintf("time cap %ds reached after %d paths", h.TimeCapS, nPaths)
				}
				mu.Unlock()
				if over {
					mu.Lock()
					if !done {
						res.Problems = append(res.Problems, why)
					}
					done = true
					queue = nil
					cond.Broadcast()
					mu.Unlock()
					break
				}
				func() {
					defer func() {
						if r := recover(); r != nil {
							if u, ok := r.(*unsupportedErr); ok {
								local = append(local, PathResult{Status: "unsupported", Msg: u.msg})
								return
							}
							panic(r)
						}
					}()
					pr := e.runPath(fn, args)
					local = append(local, pr)
					if os.Getenv("GOSYM_TRACE") != "" {
						fmt.Fprintf(os.Stderr, "[%s/%d] path: %s %s (%d steps, %d decisions)\n", h.Name, wid, pr.Status, pr.Msg, pr.Steps, len(e.decisions))
					}
				}()
				// feed idle workers; recruit another worker when a core is free
				mu.Lock()
				for idle > len(queue) {
					d := e.donate()
					if d == nil {
						break
					}
					queue = append(queue, d)
					cond.Signal()
				}
				if !done && nSpawned < g.maxWorkers && len(local) >= 4 {
					select {
					case <-g.tokens:
						if d := e.donate(); d != nil {
							queue = append(queue, d)
							nSpawned++
							nWorkers++
							spawn(nSpawned - 1)
						} else {
							g.tokens <- struct{}{}
						}
					default:
					}
				}
				mu.Unlock()
				if !e.nextPrefix() {
					break
				}
			}
		}
		// merge
		mu.Lock()
		defer mu.Unlock()
		for _, pr := range local {
			res.Paths = append(res.Paths, pr)
			res.Status[pr.Status]++
			switch pr.Status {
			case "ok", "panic", "infeasible", "assumed-unwind", "assumed-oob", "stop":
			default:
				if (pr.Status == "oob" || pr.Status == "unwind") && h.OnLimit[pr.Status] == "violation" {
					break
				}
				res.Problems = append(res.Problems, pr.Status+": "+pr.Msg)
			}
		}
		for _, v := range e.violations {
			key := v.Kind + "|" + v.Tag + "|" + v.Site + "|" + v.Known
			if v.Kind != "witness" && vioSeen[key] {
				continue
			}
			vioSeen[key] = true
			res.Violations = append(res.Violations, v)
		}
		for t, n := range e.allReached {
			res.Reached[t] += n
		}
		res.Queries[0] += sol.nUnsat
		res.Queries[1] += sol.nSat
		res.Queries[2] += sol.nUnknown
		res.Escalated += sol.nEscalated
		res.SolveTime += sol.solveTime
		res.Instr += e.nInstr
		res.Asserts += e.nAsserts
		if res.Shared == nil {
			res.Shared = map[string]string{}
		}
		for k, v := range e.sharedWrites {
			res.Shared[k] = v
		}
		for f := range e.funcsSeen {
			res.Funcs[f] = true
		}
		for _, s := range e.initSkips {
			res.InitSkips[s] = true
		}
		for _, er := range sol.errors {
			res.Problems = append(res.Problems, "solver error: "+er)
		}
	}
	// Workers are added on demand: a harness starts with one; whenever a core
	// token is free (other harnesses finished or are small) and this harness still
	// has unexplored alternatives, another worker joins.
	var wg sync.WaitGroup
	spawn = func(w int) {
		wg.Add(1)
		go func() {
			defer wg.Done()
			worker(w)
			g.tokens <- struct{}{}
			// a worker that leaves must not block the others
			mu.Lock()
			nWorkers--
			if idle >= nWorkers {
				done = true
			}
			cond.Broadcast()
			mu.Unlock()
		}()
	}
	<-g.tokens
	mu.Lock()
	tStart = time.Now()
	mu.Unlock()
	nWorkers = 1
	spawn(0)
	wg.Wait()
	for _, t := range h.Reach {
		if res.Reached[t] == 0 {
			res.Problems = append(res.Problems, "VACUOUS: reach tag never reached: "+t)
		}
	}
	return
}

func loadHarnesses(file string) ([]*Harness, error) {
	b, err := os.ReadFile(file)
	if err != nil {
		return nil, err
	}
	var hs []*Harness
	if err := json.Unmarshal(b, &hs); err != nil {
		return nil, err
	}
	return hs, nil
}

func sortedKeys(m map[string]int) []string {
	var k []string
	for s := range m {
		k = append(k, s)
	}
	sort.Strings(k)
	return k
}

// addRuntime instantiates the harness runtime template for every harness package.
func addRuntime(harnessDir, repo string, overlay map[string][]byte) error {
	tmpl, err := os.ReadFile(filepath.Join(harnessDir, "_rt", "rt.go.tmpl"))
	if err != nil {
		return err
	}
	dirs := map[string]string{}
	for dst, src := range overlay {
		d := filepath.Dir(dst)
		if _, ok := dirs[d]; ok {
			continue
		}
		for _, line := range strings.Split(string(src), "\n") {
			if strings.HasPrefix(line, "package ") {
				dirs[d] = strings.TrimSpace(strings.TrimPrefix(line, "package "))
				break
			}
		}
	}
	for d, pkg := range dirs {
		uses := false
		for dst, src := range overlay {
			if filepath.Dir(dst) == d && strings.Contains(string(src), "verifHarnesses[") {
				uses = true
			}
		}
		if !uses {
			continue
		}
		overlay[filepath.Join(d, "zz_verif_rt.go")] = []byte(strings.ReplaceAll(string(tmpl), "PKGNAME", pkg))
	}
	return nil
}
