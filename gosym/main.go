package main

import (
	"encoding/json"
	"flag"
	"fmt"
	"os"
	"path/filepath"
	"sort"
	"strings"
	"sync"
	"time"
)

type KnownFindings struct {
	Findings []struct {
		Property string `json:"property"`
		ID       string `json:"id"`
		What     string `json:"what"`
	} `json:"findings"`
	Fixed []string `json:"fixed"`
}

func main() {
	repo := flag.String("repo", "/repo", "repository under test")
	hdir := flag.String("harness", "/verif/harness", "harness directory")
	prop := flag.String("prop", "", "property id")
	only := flag.String("only", "", "run only the harnesses whose name contains this")
	tier := flag.String("tier", "quick", "quick|thorough")
	evdir := flag.String("evidence", "/verif/evidence", "evidence directory")
	knownFile := flag.String("known", "/verif/known_findings.json", "known findings")
	solver := flag.String("solver", "z3-new", "z3|z3-new|cvc5")
	workers := flag.Int("j", 16, "parallel harnesses")
	noReplay := flag.Bool("noreplay", false, "do not replay counterexamples natively")
	replayDir := flag.String("replays", "/verif/replays", "replay output directory")
	verbose := flag.Bool("v", false, "verbose")
	noWitness := flag.Bool("nowitness", false, "do not validate completed paths natively")
	replayFile := flag.String("replayfile", "", "replay one counterexample file natively and exit")
	flag.Parse()
	t0 := time.Now()
	if *replayFile != "" {
		b, err := os.ReadFile(*replayFile)
		if err != nil {
			fmt.Println("INCONCLUSIVE", err)
			os.Exit(2)
		}
		var rp struct {
			Harness string `json:"harness"`
			Pkg     string `json:"pkg"`
			Tag     string `json:"tag"`
		}
		json.Unmarshal(b, &rp)
		res := replayNative(*repo, *hdir, &Harness{Name: rp.Harness, Pkg: rp.Pkg}, *replayFile)
		fmt.Printf("replay of %s (%s): %s\n", *replayFile, rp.Tag, res)
		if res == "reproduced" {
			fmt.Printf("VIOLATION property=%s replay=%s\n", *prop, *replayFile)
			os.Exit(1)
		}
		os.Exit(0)
	}

	hs, err := loadHarnesses(filepath.Join(*hdir, "harnesses.json"))
	if err != nil {
		fmt.Println("INCONCLUSIVE harness config:", err)
		os.Exit(2)
	}
	var sel []*Harness
	for _, h := range hs {
		if *only != "" && !strings.Contains(h.Name, *only) {
			continue
		}
		if *prop != "" {
			ok := false
			for _, p := range h.Props {
				if p == *prop {
					ok = true
				}
			}
			if *tier == "thorough" {
				for _, p := range h.PropsThorough {
					if p == *prop {
						ok = true
					}
				}
			}
			if !ok {
				continue
			}
		}
		if h.Tier == "thorough" && *tier != "thorough" {
			continue
		}
		if h.Tier == "manual" && *only == "" {
			// not part of any registered command (did not finish within the session's budget)
			continue
		}
		if *tier == "thorough" && h.Thorough != nil {
			// overlay thorough bounds
			t := h.Thorough
			for k, v := range t.Params {
				if h.Params == nil {
					h.Params = map[string]uint64{}
				}
				h.Params[k] = v
			}
			if t.MaxPaths > 0 {
				h.MaxPaths = t.MaxPaths
			}
			if t.TimeCapS > 0 {
				h.TimeCapS = t.TimeCapS
			}
			if t.Unroll > 0 {
				h.Unroll = t.Unroll
			}
			if t.BufMax > 0 {
				h.BufMax = t.BufMax
			}
			if t.MaxSteps > 0 {
				h.MaxSteps = t.MaxSteps
			}
		}
		h.SharedWrites = true
		sel = append(sel, h)
	}
	if len(sel) == 0 {
		fmt.Println("INCONCLUSIVE no harness selected")
		os.Exit(2)
	}
	eng, err := loadEngine(*repo, *hdir, nil)
	if err != nil {
		fmt.Println("INCONCLUSIVE load:", err)
		os.Exit(2)
	}
	if *verbose {
		fmt.Fprintf(os.Stderr, "loaded in %v, %d harnesses\n", eng.loadTime, len(sel))
	}
	timeout := 30000
	if *tier == "thorough" {
		timeout = 300000
	}
	eng.maxWorkers = *workers
	eng.tokens = make(chan struct{}, *workers)
	for i := 0; i < *workers; i++ {
		eng.tokens <- struct{}{}
	}
	results := make([]*HarnessResult, len(sel))
	var wg sync.WaitGroup
	for i, h := range sel {
		wg.Add(1)
		go func(i int, h *Harness) {
			defer wg.Done()
			results[i] = eng.runHarness(h, *solver, timeout)
			if *verbose || os.Getenv("GOSYM_PROGRESS") != "" {
				r := results[i]
				fmt.Fprintf(os.Stderr, "[done %s] paths=%d %v wall=%v violations=%d problems=%d\n", h.Name, len(r.Paths), r.Status, r.Wall.Round(time.Millisecond), len(r.Violations), len(r.Problems))
			}
		}(i, h)
	}
	wg.Wait()

	structural := []string{}
	if *prop == "C17" {
		structural = checkAbortFlag(eng)
	}
	var known KnownFindings
	if b, err := os.ReadFile(*knownFile); err == nil {
		json.Unmarshal(b, &known)
	}
	isKnown := func(prop, id string) (string, bool) {
		for _, f := range known.Findings {
			if f.ID == id && (prop == "" || f.Property == prop) {
				return f.What, true
			}
		}
		return "", false
	}

	exit := 0
	inconclusive := false
	nViol, nWit, nWitOK := 0, 0, 0
	knownPrinted := map[string]bool{}
	for _, r := range results {
		if *verbose || len(r.Problems) > 0 {
			fmt.Fprintf(os.Stderr, "== %s: paths=%d %v queries(unsat/sat/unk)=%v solve=%v wall=%v instr=%d reached=%v\n",
				r.H.Name, len(r.Paths), r.Status, r.Queries, r.SolveTime.Round(time.Millisecond), r.Wall.Round(time.Millisecond), r.Instr, sortedKeys(r.Reached))
		}
		seenP := map[string]bool{}
		for _, p := range r.Problems {
			if !seenP[p] {
				fmt.Printf("INCONCLUSIVE harness=%s %s\n", r.H.Name, p)
			}
			seenP[p] = true
			inconclusive = true
		}
		for vi := range r.Violations {
			v := &r.Violations[vi]
			// assertion tags start with the property they belong to ("C05: ..."); a harness shared by
			// several properties reports to each check only its own assertions (panics go to all)
			if v.Kind == "shared-write" {
				// isolation of instances: belongs to C16 and C17
				if *prop != "C16" && *prop != "C17" && *prop != "" {
					continue
				}
			} else if *prop != "" && len(v.Tag) > 4 && v.Tag[0] == 'C' && v.Tag[3] == ':' && v.Tag[:3] != *prop {
				continue
			}
			if v.Known != "" {
				if what, ok := isKnown(*prop, v.Known); ok {
					if !knownPrinted[v.Known] {
						knownPrinted[v.Known] = true
						fmt.Printf("KNOWN-FINDING: property=%s %s [%s] (harness %s, %s at %s)\n", *prop, what, v.Known, r.H.Name, v.Tag, v.Site)
					}
					continue
				}
			}
			if v.Kind == "witness" {
				if *noReplay || *noWitness {
					continue
				}
				nWit++
				wpath := writeReplay(filepath.Join(*replayDir, "witness"), *prop, r.H, v, nWit)
				if res := replayNative(*repo, *hdir, r.H, wpath); res == "reproduced" {
					nWitOK++
				} else {
					fmt.Printf("INCONCLUSIVE harness=%s ENGINE-MISMATCH on witness %s: %s\n", r.H.Name, wpath, res)
					inconclusive = true
				}
				continue
			}
			nViol++
			path := writeReplay(*replayDir, *prop, r.H, v, nViol)
			confirmed := "unreplayed"
			if !*noReplay {
				confirmed = replayNative(*repo, *hdir, r.H, path)
			}
			if *verbose || true {
				fmt.Fprintf(os.Stderr, "-- violation harness=%s kind=%s tag=%q site=%s known=%q replay=%s\n   model=%v\n   stack=%v\n",
					r.H.Name, v.Kind, v.Tag, v.Site, v.Known, confirmed, v.Model, v.Stack)
			}
			switch confirmed {
			case "reproduced", "unreplayed", "symbolic-only":
				fmt.Printf("VIOLATION property=%s replay=%s harness=%s kind=%s tag=%q site=%q\n", *prop, path, r.H.Name, v.Kind, v.Tag, v.Site)
				exit = 1
			default:
				fmt.Printf("INCONCLUSIVE harness=%s UNCONFIRMED counterexample %s (%s): %s\n", r.H.Name, path, v.Tag, confirmed)
				inconclusive = true
			}
		}
	}
	for _, sp := range structural {
		nViol++
		fmt.Printf("VIOLATION property=C17 replay=none kind=structural %s\n", sp)
		exit = 1
	}
	if *prop != "" && *only == "" {
		writeEvidence(*evdir, *prop, *tier, results, eng, time.Since(t0), nViol, *solver, nWitOK)
	}
	if exit == 0 && inconclusive {
		exit = 2
	}
	if exit == 0 {
		fmt.Printf("OK property=%s tier=%s harnesses=%d wall=%.1fs\n", *prop, *tier, len(results), time.Since(t0).Seconds())
	}
	os.Exit(exit)
}

func writeReplay(dir, prop string, h *Harness, v *Violation, n int) string {
	d := filepath.Join(dir, prop)
	os.MkdirAll(d, 0o755)
	path := filepath.Join(d, fmt.Sprintf("%s-%d.json", h.Name, n))
	out := map[string]interface{}{
		"property": prop, "harness": h.Name, "pkg": h.Pkg, "func": h.Func, "args": h.Args, "params": h.Params,
		"kind": v.Kind, "tag": v.Tag, "site": v.Site, "known": v.Known,
		"inputs": v.Inputs, "ufs": v.UFs, "stack": v.Stack,
	}
	b, _ := json.MarshalIndent(out, "", " ")
	os.WriteFile(path, b, 0o644)
	return path
}

func writeEvidence(dir, prop, tier string, results []*HarnessResult, eng *Engine, wall time.Duration, nViol int, solver string, nWitOK int) {
	os.MkdirAll(dir, 0o755)
	states, trans, queries, asserts := 0, 0, [3]int{}, 0
	var solveT time.Duration
	var samples []interface{}
	harn := []interface{}{}
	funcs := map[string]bool{}
	assumptions := map[string]bool{}
	for _, r := range results {
		states += len(r.Paths)
		trans += r.Instr
		for i := range queries {
			queries[i] += r.Queries[i]
		}
		solveT += r.SolveTime
		asserts += r.Asserts
		hinfo := map[string]interface{}{
			"name": r.H.Name, "entry": r.H.Pkg + "." + r.H.Func, "paths": len(r.Paths), "path_status": r.Status,
			"ssa_instructions": r.Instr, "queries_unsat": r.Queries[0], "queries_sat": r.Queries[1], "queries_unknown": r.Queries[2],
			"solver_s": r.SolveTime.Seconds(), "wall_s": r.Wall.Seconds(), "queries_escalated_to_fresh_solver": r.Escalated, "reach_tags": r.Reached,
			"bounds":     map[string]interface{}{"unroll": r.H.Unroll, "bufmax": r.H.BufMax, "maxpaths": r.H.MaxPaths, "params": r.H.Params, "onlimit": r.H.OnLimit, "maporder": r.H.MapOrder},
			"violations": len(r.Violations), "note": r.H.Note,
		}
		harn = append(harn, hinfo)
		if len(r.Paths) > 0 && len(samples) < 6 {
			p := r.Paths[len(r.Paths)/2]
			pc := "true"
			if p.PC != nil {
				pc = p.PC.str(6)
				if len(pc) > 400 {
					pc = pc[:400] + "..."
				}
			}
			samples = append(samples, map[string]interface{}{"harness": r.H.Name, "path_status": p.Status, "steps": p.Steps, "reached": p.Reached, "path_condition": pc})
		}
		if r.H.Note != "" {
			assumptions[r.H.Name+": "+r.H.Note] = true
		}
		for f := range r.Funcs {
			funcs[f] = true
		}
	}
	var fl []string
	for f := range funcs {
		fl = append(fl, f)
	}
	sort.Strings(fl)
	as := []string{
		"A-cap: observable behaviour does not depend on Go's slice growth policy (append reallocates to the exact size in the encoding)",
		"A-big: every big.Int the EVM sees lies in [0, 2^256)",
		"A-jp: a join point returns at most the gas it was given; everything else about its result is unconstrained",
		"host StateDB = event journal (Snapshot = length, RevertToSnapshot = truncate); readers are arbitrary functions of (journal length, arguments)",
		"hash functions are uninterpreted (congruence only) in the symbolic run and real in the native replay",
		"map iteration follows insertion order except in harnesses that declare maporder=any",
		"initialisers of dependency packages that the engine cannot encode leave their variable at its zero value (list: init_skips)",
	}
	for a := range assumptions {
		as = append(as, a)
	}
	sort.Strings(as)
	level := propLevel(prop)
	cov := map[string]interface{}{
		"states": states, "transitions": trans, "traces_validated_against_impl": nWitOK,
		"samples": samples, "harnesses": harn,
		"queries":            map[string]interface{}{"unsat": queries[0], "sat": queries[1], "unknown": queries[2], "solver_s": solveT.Seconds(), "solver": solver},
		"assertions_checked": asserts,
		"functions_encoded":  fl,
		"engine":             "gosym: go/ssa symbolic executor -> SMT-LIB2 (QF_AUFBV), regenerated from the working tree on this run",
		"load_s":             eng.loadTime.Seconds(),
		"explanation":        "states = explored symbolic paths; transitions = SSA instructions executed symbolically; every assertion, panic condition and bound is a separate solver query",
		"programs":           len(results), "disagreements_checked": asserts,
		"init_skips":   initSkips(results),
		"trusted_base": []string{"gosym engine (validated per run by replaying completed symbolic paths natively: traces_validated_against_impl)", "z3 4.8.12 / z3 5.1 / cvc5 1.0", "go/ssa of x/tools v0.29.0", "summaries of math/bits, math/big, uint256 kernels, sort.Slice, bytes.Compare, keccak and standard precompile kernels (uninterpreted; modexp gas function and body real in ModexpGas/ModexpWork)"},
	}
	ev := map[string]interface{}{
		"property_id": prop, "tier": tier, "seed": 0, "level": level, "coverage": cov,
		"assumptions": as, "wall_s": wall.Seconds(), "violations": nViol,
	}
	b, _ := json.MarshalIndent(ev, "", " ")
	os.WriteFile(filepath.Join(dir, prop+".json"), b, 0o644)
}

func propLevel(prop string) string {
	// the level is whatever MANIFEST.json claims for this property
	for _, f := range []string{os.Getenv("VERIF_MANIFEST"), "MANIFEST.json", "/verif/MANIFEST.json"} {
		if f == "" {
			continue
		}
		b, err := os.ReadFile(f)
		if err != nil {
			continue
		}
		var m struct {
			Checks []struct {
				ID    string `json:"property_id"`
				Level struct {
					Category string `json:"category"`
				} `json:"level_claimed"`
			} `json:"checks"`
		}
		if json.Unmarshal(b, &m) != nil {
			continue
		}
		for _, c := range m.Checks {
			if c.ID == prop && c.Level.Category != "" {
				return c.Level.Category
			}
		}
	}
	return "model_checking"
}

func initSkips(results []*HarnessResult) []string {
	seen := map[string]bool{}
	var out []string
	for _, r := range results {
		for s := range r.InitSkips {
			if !seen[s] {
				seen[s] = true
				out = append(out, s)
			}
		}
	}
	sort.Strings(out)
	if len(out) > 40 {
		out = append(out[:40], fmt.Sprintf("... and %d more", len(out)-40))
	}
	return out
}
