package main

// Native replay: the harness that the engine executed symbolically is compiled
// by the real Go toolchain (same overlay files) and run on the solver's model.

import (
	"encoding/json"
	"fmt"
	"os"
	"os/exec"
	"path/filepath"
	"strings"
	"sync"
	"time"
)

var replayMu sync.Mutex
var replayBins = map[string]string{}
var replayBuildErr = map[string]string{}

func workDir() string {
	d := os.Getenv("GOSYM_WORK")
	if d == "" {
		d = "/verif/.work"
	}
	os.MkdirAll(d, 0o755)
	return d
}

// buildReplayBinary compiles the test binary of the harness package with the
// harness overlay applied to the repository's current working tree.
func buildReplayBinary(repo, hdir, pkgDir string) (string, string) {
	replayMu.Lock()
	defer replayMu.Unlock()
	if b, ok := replayBins[pkgDir]; ok {
		return b, replayBuildErr[pkgDir]
	}
	wd := workDir()
	ov := map[string]string{}
	pkgName := ""
	// harness files of every package are overlaid (cut-point shims live in them); the
	// replay test itself is added to the package of this harness only
	hdirs, _ := os.ReadDir(hdir)
	for _, hd := range hdirs {
		if !hd.IsDir() || strings.HasPrefix(hd.Name(), "_") || strings.HasPrefix(hd.Name(), "MOD__") || hd.Name() == "cuts" {
			continue
		}
		dir := strings.ReplaceAll(hd.Name(), "__", "/")
		src := filepath.Join(hdir, hd.Name())
		ents, _ := os.ReadDir(src)
		name, uses := "", false
		for _, en := range ents {
			if !strings.HasSuffix(en.Name(), ".go") {
				continue
			}
			real := filepath.Join(src, en.Name())
			ov[filepath.Join(repo, dir, "zz_verif_"+en.Name())] = real
			b, _ := os.ReadFile(real)
			if strings.Contains(string(b), "verifHarnesses[") {
				uses = true
			}
			if name == "" {
				for _, line := range strings.Split(string(b), "\n") {
					if strings.HasPrefix(line, "package ") {
						name = strings.TrimSpace(strings.TrimPrefix(line, "package "))
						break
					}
				}
			}
		}
		if dir == pkgDir {
			pkgName = name
		}
		if !uses {
			continue
		}
		tmpls := []struct{ tmpl, out string }{{"rt.go.tmpl", "zz_verif_rt.go"}}
		if dir == pkgDir {
			tmpls = append(tmpls, struct{ tmpl, out string }{"replay_test.go.tmpl", "zz_verif_replay_test.go"})
		}
		for _, t := range tmpls {
			b, err := os.ReadFile(filepath.Join(hdir, "_rt", t.tmpl))
			if err != nil {
				replayBins[pkgDir], replayBuildErr[pkgDir] = "", err.Error()
				return "", err.Error()
			}
			real := filepath.Join(wd, strings.ReplaceAll(pkgDir, "/", "__")+"_for_"+strings.ReplaceAll(dir, "/", "__")+"_"+t.out)
			os.WriteFile(real, []byte(strings.ReplaceAll(string(b), "PKGNAME", name)), 0o644)
			ov[filepath.Join(repo, dir, t.out)] = real
		}
	}
	_ = pkgName
	// cut-point files (regenerated from the current sources) and shim files of other packages
	cuts, cerr := cutFiles(hdir, repo)
	if cerr != nil {
		replayBins[pkgDir], replayBuildErr[pkgDir] = "", cerr.Error()
		return "", cerr.Error()
	}
	ci := 0
	for f, b := range cuts {
		ci++
		real := filepath.Join(wd, fmt.Sprintf("cut_%d_%s", ci, filepath.Base(f)))
		os.WriteFile(real, b, 0o644)
		ov[f] = real
	}
	hents, _ := os.ReadDir(hdir)
	for _, he := range hents {
		if !he.IsDir() || !strings.HasPrefix(he.Name(), "MOD__") {
			continue
		}
		dir := filepath.Join(modCache(), strings.ReplaceAll(he.Name()[5:], "__", "/"))
		fs, _ := os.ReadDir(filepath.Join(hdir, he.Name()))
		for _, f := range fs {
			if strings.HasSuffix(f.Name(), ".go") {
				ov[filepath.Join(dir, "zz_verif_"+f.Name())] = filepath.Join(hdir, he.Name(), f.Name())
			}
		}
	}
	ovb, _ := json.Marshal(map[string]interface{}{"Replace": ov})
	ovFile := filepath.Join(wd, strings.ReplaceAll(pkgDir, "/", "__")+"_overlay.json")
	os.WriteFile(ovFile, ovb, 0o644)
	bin := filepath.Join(wd, strings.ReplaceAll(pkgDir, "/", "__")+".replay.test")
	cmd := exec.Command("go", "test", "-c", "-tags", "verif", "-vet=off", "-overlay", ovFile, "-o", bin, "./"+pkgDir)
	cmd.Dir = repo
	cmd.Env = append(os.Environ(), "GOFLAGS=-mod=mod", "GOPROXY=off", "GOSUMDB=off", "GOTOOLCHAIN=local")
	out, err := cmd.CombinedOutput()
	if err != nil {
		msg := fmt.Sprintf("replay build failed: %v: %s", err, tail(string(out), 1500))
		replayBins[pkgDir], replayBuildErr[pkgDir] = "", msg
		return "", msg
	}
	replayBins[pkgDir] = bin
	return bin, ""
}

func tail(s string, n int) string {
	if len(s) > n {
		return s[len(s)-n:]
	}
	return s
}

// replayNative returns "reproduced" when the real build fails the same way,
// otherwise a description of what happened instead.
func replayNative(repo, hdir string, h *Harness, path string) string {
	bin, berr := buildReplayBinary(repo, hdir, h.Pkg)
	if bin == "" {
		return berr
	}
	if bb, _ := os.ReadFile(path); strings.Contains(string(bb), `"kind": "shared-write"`) {
		// a write to package-level memory is a fact about the code path, established symbolically
		return "symbolic-only"
	}
	b, _ := os.ReadFile(path)
	var rp struct {
		Kind  string   `json:"kind"`
		Tag   string   `json:"tag"`
		Stack []string `json:"stack"`
	}
	json.Unmarshal(b, &rp)
	if strings.HasPrefix(rp.Tag, "C16:") && rp.Kind == "assert" {
		// dependence on Go's randomised map order: the native run fails with some probability
		// per execution; repeat until two different orders are observed (bounded tries)
		for try := 0; try < 40; try++ {
			cmd := exec.Command(bin, "-test.run", "^TestVerifReplay$", "-test.v", "-test.timeout", "120s")
			cmd.Dir = filepath.Join(repo, h.Pkg)
			cmd.Env = append(os.Environ(), "VERIF_REPLAY="+path)
			out, _ := cmd.CombinedOutput()
			if strings.Contains(string(out), "VERIF-REPLAY-RESULT: ASSERT-FAILED C16:") {
				os.WriteFile(path+".native.txt", out, 0o644)
				return "reproduced"
			}
		}
		return "native run did not reproduce in 40 tries"
	}
	cmd := exec.Command(bin, "-test.run", "^TestVerifReplay$", "-test.v", "-test.timeout", "120s")
	cmd.Dir = filepath.Join(repo, h.Pkg)
	cmd.Env = append(os.Environ(), "VERIF_REPLAY="+path)
	done := make(chan struct{})
	var out []byte
	go func() { out, _ = cmd.CombinedOutput(); close(done) }()
	limit := 150 * time.Second
	if rp.Kind == "unwind" {
		// a loop whose trip count the input controls: the native run is expected not to finish
		limit = 20 * time.Second
	}
	select {
	case <-done:
	case <-time.After(limit):
		cmd.Process.Kill()
		if rp.Kind == "unwind" {
			return "reproduced"
		}
		return "replay timed out"
	}
	txt := string(out)
	os.WriteFile(path+".native.txt", out, 0o644)
	res := ""
	for _, l := range strings.Split(txt, "\n") {
		if i := strings.Index(l, "VERIF-REPLAY-RESULT:"); i >= 0 {
			res = strings.TrimSpace(l[i+len("VERIF-REPLAY-RESULT:"):])
		}
	}
	reached := ""
	for _, l := range strings.Split(txt, "\n") {
		if i := strings.Index(l, "VERIF-REPLAY-REACHED:"); i >= 0 {
			reached = strings.TrimSpace(l[i+len("VERIF-REPLAY-REACHED:"):])
		}
	}
	switch rp.Kind {
	case "witness":
		// a completed symbolic path: the native run must complete and reach the same tags
		want := map[string]bool{}
		for _, t := range rp.Stack {
			want[t] = true
		}
		got := map[string]bool{}
		for _, t := range strings.Split(reached, ",") {
			if t != "" {
				got[t] = true
			}
		}
		same := len(want) == len(got)
		for t := range want {
			if !got[t] {
				same = false
			}
		}
		if res == "completed" && same {
			return "reproduced"
		}
		return fmt.Sprintf("native run diverged from the symbolic path: result=%q reached=%q want=%v", res, reached, rp.Stack)
	case "assert":
		if res == "ASSERT-FAILED "+rp.Tag || strings.Contains(txt, "VERIF-REPLAY-FAILED: "+rp.Tag+"\n") {
			return "reproduced"
		}
		if strings.HasPrefix(rp.Tag, "C20:") && strings.Contains(rp.Tag, "allocat") && (strings.Contains(txt, "fatal error: runtime: out of memory") || strings.Contains(txt, "makeslice: len out of range") || strings.Contains(txt, "cannot allocate memory")) {
			// the real build asked the Go runtime for the unpaid allocation and died of it
			return "reproduced"
		}
		if strings.HasPrefix(rp.Tag, "C20:") && strings.Contains(rp.Tag, "allocat") && res == "completed" {
			// the allocation counter exists only in the symbolic engine
			return "symbolic-only"
		}
	case "panic":
		// tag is "no-panic: <runtime message>"
		msg := strings.TrimPrefix(rp.Tag, "no-panic: ")
		msg = strings.TrimPrefix(msg, "panic: ")
		if strings.HasPrefix(res, "PANIC") {
			key := msg
			if i := strings.Index(key, " ("); i > 0 {
				key = key[:i]
			}
			if strings.Contains(res, key) || strings.Contains(txt, key) {
				return "reproduced"
			}
			return "native run panicked differently: " + res
		}
	case "unwind":
		return "native run finished within 20 s: the unbounded loop was not confirmed"
	case "oob":
		return "symbolic-only"
	}
	if res == "" {
		res = "no result line; output tail: " + tail(txt, 300)
	}
	return "native run did not reproduce: " + res
}
