package main

// Hash-consed term DAG over Bool, bit-vectors and (BV64 -> BV8) arrays, with
// constant folding and light algebraic simplification.  Every non-leaf term is
// sent to the solver once as a define-fun, so assertion text stays linear in
// the DAG size.

import (
	"fmt"
	"math/big"
	"strings"
)

type Op uint8

const (
	OpConst Op = iota // BV or Bool constant
	OpVar
	OpAdd
	OpSub
	OpMul
	OpUDiv
	OpURem
	OpSDiv
	OpSRem
	OpAnd
	OpOr
	OpXor
	OpNot
	OpNeg
	OpShl
	OpLShr
	OpAShr
	OpConcat
	OpExtract
	OpZExt
	OpSExt
	OpIte
	OpEq
	OpUlt
	OpUle
	OpSlt
	OpSle
	OpBAnd
	OpBOr
	OpBNot
	OpSelect
	OpStore
	OpConstArr
	OpUF
)

var opNames = map[Op]string{
	OpAdd: "bvadd", OpSub: "bvsub", OpMul: "bvmul", OpUDiv: "bvudiv", OpURem: "bvurem",
	OpSDiv: "bvsdiv", OpSRem: "bvsrem", OpAnd: "bvand", OpOr: "bvor", OpXor: "bvxor",
	OpNot: "bvnot", OpNeg: "bvneg", OpShl: "bvshl", OpLShr: "bvlshr", OpAShr: "bvashr",
	OpConcat: "concat", OpIte: "ite", OpEq: "=", OpUlt: "bvult", OpUle: "bvule",
	OpSlt: "bvslt", OpSle: "bvsle", OpBAnd: "and", OpBOr: "or", OpBNot: "not",
	OpSelect: "select", OpStore: "store",
}

const (
	SortBool = 0
	SortArr  = -1
)

type Term struct {
	id   int
	op   Op
	w    int // 0 Bool, -1 Array(BV64,BV8), >0 BV width
	args []*Term
	val  *big.Int // constants (Bool: 0/1)
	name string   // vars and UF names
	a, b int      // extract hi/lo; ext amount
}

type TermBank struct {
	tab   map[string]*Term
	nodes []*Term
	// ufs declared: name -> signature
	ufs map[string]string
}

func NewTermBank() *TermBank {
	return &TermBank{tab: map[string]*Term{}, ufs: map[string]string{}}
}

func (tb *TermBank) intern(t *Term) *Term {
	var sb strings.Builder
	fmt.Fprintf(&sb, "%d|%d|%d|%d|%s|", t.op, t.w, t.a, t.b, t.name)
	if t.val != nil {
		sb.WriteString(t.val.Text(16))
	}
	for _, a := range t.args {
		fmt.Fprintf(&sb, ",%d", a.id)
	}
	k := sb.String()
	if e, ok := tb.tab[k]; ok {
		return e
	}
	t.id = len(tb.nodes)
	tb.nodes = append(tb.nodes, t)
	tb.tab[k] = t
	return t
}

var bigOne = big.NewInt(1)

func mask(w int) *big.Int {
	m := new(big.Int).Lsh(bigOne, uint(w))
	return m.Sub(m, bigOne)
}

func (tb *TermBank) BV(v *big.Int, w int) *Term {
	x := new(big.Int).And(v, mask(w))
	if v.Sign() < 0 {
		x = new(big.Int).Mod(v, new(big.Int).Lsh(bigOne, uint(w)))
	}
	return tb.intern(&Term{op: OpConst, w: w, val: x})
}
func (tb *TermBank) BVu(v uint64, w int) *Term { return tb.BV(new(big.Int).SetUint64(v), w) }
func (tb *TermBank) BVi(v int64, w int) *Term  { return tb.BV(big.NewInt(v), w) }
func (tb *TermBank) Bool(b bool) *Term {
	v := big.NewInt(0)
	if b {
		v = big.NewInt(1)
	}
	return tb.intern(&Term{op: OpConst, w: SortBool, val: v})
}
func (tb *TermBank) True() *Term  { return tb.Bool(true) }
func (tb *TermBank) False() *Term { return tb.Bool(false) }

func (tb *TermBank) Var(name string, w int) *Term {
	return tb.intern(&Term{op: OpVar, w: w, name: name})
}

func (t *Term) IsConst() bool { return t.op == OpConst }
func (t *Term) IsTrue() bool  { return t.op == OpConst && t.w == SortBool && t.val.Sign() != 0 }
func (t *Term) IsFalse() bool { return t.op == OpConst && t.w == SortBool && t.val.Sign() == 0 }
func (t *Term) U64() uint64   { return t.val.Uint64() }
func (t *Term) ConstU64() (uint64, bool) {
	if t.op == OpConst && t.w > 0 && t.val.IsUint64() {
		return t.val.Uint64(), true
	}
	return 0, false
}

func toSigned(v *big.Int, w int) *big.Int {
	if v.Bit(w-1) == 1 {
		return new(big.Int).Sub(v, new(big.Int).Lsh(bigOne, uint(w)))
	}
	return v
}

func (tb *TermBank) mk(op Op, w int, args ...*Term) *Term {
	return tb.intern(&Term{op: op, w: w, args: args})
}

// Bin builds a binary BV operation with folding.
func (tb *TermBank) Bin(op Op, x, y *Term) *Term {
	if x.w != y.w || x.w <= 0 {
		panic(fmt.Sprintf("Bin %v width mismatch %d %d", opNames[op], x.w, y.w))
	}
	w := x.w
	if x.IsConst() && y.IsConst() {
		a, b := x.val, y.val
		r := new(big.Int)
		switch op {
		case OpAdd:
			r.Add(a, b)
		case OpSub:
			r.Sub(a, b)
		case OpMul:
			r.Mul(a, b)
		case OpUDiv:
			if b.Sign() == 0 {
				r = mask(w)
			} else {
				r.Div(a, b)
			}
		case OpURem:
			if b.Sign() == 0 {
				r.Set(a)
			} else {
				r.Mod(a, b)
			}
		case OpSDiv:
			sa, sb := toSigned(a, w), toSigned(b, w)
			if sb.Sign() == 0 {
				if sa.Sign() < 0 {
					r.SetInt64(1)
				} else {
					r = mask(w)
				}
			} else {
				r.Quo(sa, sb)
			}
		case OpSRem:
			sa, sb := toSigned(a, w), toSigned(b, w)
			if sb.Sign() == 0 {
				r.Set(sa)
			} else {
				r.Rem(sa, sb)
			}
		case OpAnd:
			r.And(a, b)
		case OpOr:
			r.Or(a, b)
		case OpXor:
			r.Xor(a, b)
		case OpShl:
			if b.Cmp(big.NewInt(int64(w))) >= 0 {
				r.SetInt64(0)
			} else {
				r.Lsh(a, uint(b.Uint64()))
			}
		case OpLShr:
			if b.Cmp(big.NewInt(int64(w))) >= 0 {
				r.SetInt64(0)
			} else {
				r.Rsh(a, uint(b.Uint64()))
			}
		case OpAShr:
			sa := toSigned(a, w)
			sh := uint(w)
			if b.Cmp(big.NewInt(int64(w))) < 0 {
				sh = uint(b.Uint64())
			}
			r.Rsh(sa, sh)
		default:
			panic("Bin fold")
		}
		return tb.BV(r, w)
	}
	isZero := func(t *Term) bool { return t.IsConst() && t.val.Sign() == 0 }
	isOnes := func(t *Term) bool { return t.IsConst() && t.val.Cmp(mask(w)) == 0 }
	switch op {
	case OpAdd:
		if isZero(x) {
			return y
		}
		if isZero(y) {
			return x
		}
		// (a + c1) + c2 -> a + (c1+c2)
		if y.IsConst() && x.op == OpAdd && x.args[1].IsConst() {
			return tb.Bin(OpAdd, x.args[0], tb.Bin(OpAdd, x.args[1], y))
		}
		if x.IsConst() && !y.IsConst() {
			return tb.Bin(OpAdd, y, x)
		}
	case OpSub:
		if isZero(y) {
			return x
		}
		if x == y {
			return tb.BVu(0, w)
		}
		if y.IsConst() {
			return tb.Bin(OpAdd, x, tb.BV(new(big.Int).Neg(y.val), w))
		}
	case OpMul:
		if isZero(x) || isZero(y) {
			return tb.BVu(0, w)
		}
		if x.IsConst() && x.val.Cmp(bigOne) == 0 {
			return y
		}
		if y.IsConst() && y.val.Cmp(bigOne) == 0 {
			return x
		}
	case OpAnd:
		if isZero(x) || isZero(y) {
			return tb.BVu(0, w)
		}
		if isOnes(x) {
			return y
		}
		if isOnes(y) {
			return x
		}
		if x == y {
			return x
		}
	case OpOr:
		if isZero(x) {
			return y
		}
		if isZero(y) {
			return x
		}
		if x == y {
			return x
		}
	case OpXor:
		if isZero(x) {
			return y
		}
		if isZero(y) {
			return x
		}
		if x == y {
			return tb.BVu(0, w)
		}
	case OpShl, OpLShr, OpAShr:
		if isZero(y) {
			return x
		}
		if isZero(x) {
			return x
		}
	case OpUDiv:
		if y.IsConst() && y.val.Cmp(bigOne) == 0 {
			return x
		}
		// division / remainder / multiplication by a power of two are shifts and masks
		if k := pow2(y); k > 0 {
			return tb.Bin(OpLShr, x, tb.BVu(uint64(k), w))
		}
	case OpURem:
		if k := pow2(y); k >= 0 {
			return tb.Bin(OpAnd, x, tb.BV(new(big.Int).Sub(y.val, bigOne), w))
		}
	}
	if op == OpMul {
		if k := pow2(y); k > 0 {
			return tb.Bin(OpShl, x, tb.BVu(uint64(k), w))
		}
		if k := pow2(x); k > 0 {
			return tb.Bin(OpShl, y, tb.BVu(uint64(k), w))
		}
	}
	return tb.mk(op, w, x, y)
}

func (tb *TermBank) Not(x *Term) *Term {
	if x.IsConst() {
		return tb.BV(new(big.Int).Xor(x.val, mask(x.w)), x.w)
	}
	if x.op == OpNot {
		return x.args[0]
	}
	return tb.mk(OpNot, x.w, x)
}
func (tb *TermBank) Neg(x *Term) *Term {
	if x.IsConst() {
		return tb.BV(new(big.Int).Neg(x.val), x.w)
	}
	return tb.mk(OpNeg, x.w, x)
}

func (tb *TermBank) Concat(hi, lo *Term) *Term {
	if hi.IsConst() && lo.IsConst() {
		v := new(big.Int).Lsh(hi.val, uint(lo.w))
		v.Or(v, lo.val)
		return tb.BV(v, hi.w+lo.w)
	}
	// concat(extract(h1,l1,x), extract(l1-1,l2,x)) -> extract(h1,l2,x)
	if hi.op == OpExtract && lo.op == OpExtract && hi.args[0] == lo.args[0] && hi.b == lo.a+1 {
		return tb.Extract(hi.args[0], hi.a, lo.b)
	}
	return tb.mk(OpConcat, hi.w+lo.w, hi, lo)
}

func (tb *TermBank) Extract(x *Term, hi, lo int) *Term {
	if hi < lo || hi >= x.w || lo < 0 {
		panic(fmt.Sprintf("bad extract %d %d of width %d", hi, lo, x.w))
	}
	if lo == 0 && hi == x.w-1 {
		return x
	}
	if x.IsConst() {
		v := new(big.Int).Rsh(x.val, uint(lo))
		return tb.BV(v, hi-lo+1)
	}
	switch x.op {
	case OpExtract:
		return tb.Extract(x.args[0], hi+x.b, lo+x.b)
	case OpConcat:
		l := x.args[1]
		if hi < l.w {
			return tb.Extract(l, hi, lo)
		}
		if lo >= l.w {
			return tb.Extract(x.args[0], hi-l.w, lo-l.w)
		}
		return tb.Concat(tb.Extract(x.args[0], hi-l.w, 0), tb.Extract(l, l.w-1, lo))
	case OpZExt:
		in := x.args[0]
		if hi < in.w {
			return tb.Extract(in, hi, lo)
		}
		if lo >= in.w {
			return tb.BVu(0, hi-lo+1)
		}
		return tb.Concat(tb.BVu(0, hi-in.w+1), tb.Extract(in, in.w-1, lo))
	case OpAnd, OpOr, OpXor:
		// push extract through bitwise ops when one side is constant
		if x.args[0].IsConst() || x.args[1].IsConst() {
			return tb.Bin(x.op, tb.Extract(x.args[0], hi, lo), tb.Extract(x.args[1], hi, lo))
		}
	case OpIte:
		if x.args[1].IsConst() && x.args[2].IsConst() {
			return tb.Ite(x.args[0], tb.Extract(x.args[1], hi, lo), tb.Extract(x.args[2], hi, lo))
		}
	}
	t := &Term{op: OpExtract, w: hi - lo + 1, args: []*Term{x}, a: hi, b: lo}
	return tb.intern(t)
}

func (tb *TermBank) ZExt(x *Term, w int) *Term {
	if w == x.w {
		return x
	}
	if w < x.w {
		return tb.Extract(x, w-1, 0)
	}
	if x.IsConst() {
		return tb.BV(x.val, w)
	}
	if x.op == OpZExt {
		return tb.ZExt(x.args[0], w)
	}
	return tb.intern(&Term{op: OpZExt, w: w, args: []*Term{x}, a: w - x.w})
}

func (tb *TermBank) SExt(x *Term, w int) *Term {
	if w == x.w {
		return x
	}
	if w < x.w {
		return tb.Extract(x, w-1, 0)
	}
	if x.IsConst() {
		return tb.BV(toSigned(x.val, x.w), w)
	}
	return tb.intern(&Term{op: OpSExt, w: w, args: []*Term{x}, a: w - x.w})
}

func (tb *TermBank) Ite(c, x, y *Term) *Term {
	if c.IsTrue() {
		return x
	}
	if c.IsFalse() {
		return y
	}
	if x == y {
		return x
	}
	if x.w != y.w {
		panic(fmt.Sprintf("ite sort mismatch %d %d", x.w, y.w))
	}
	if x.w == SortBool {
		if x.IsTrue() && y.IsFalse() {
			return c
		}
		if x.IsFalse() && y.IsTrue() {
			return tb.BNot(c)
		}
		if x.IsTrue() {
			return tb.BOr(c, y)
		}
		if x.IsFalse() {
			return tb.BAnd(tb.BNot(c), y)
		}
		if y.IsTrue() {
			return tb.BOr(tb.BNot(c), x)
		}
		if y.IsFalse() {
			return tb.BAnd(c, x)
		}
	}
	if c.op == OpBNot {
		return tb.Ite(c.args[0], y, x)
	}
	return tb.mk(OpIte, x.w, c, x, y)
}

func (tb *TermBank) Eq(x, y *Term) *Term {
	if x == y {
		return tb.True()
	}
	if x.w != y.w {
		panic(fmt.Sprintf("eq sort mismatch %d %d", x.w, y.w))
	}
	if x.IsConst() && y.IsConst() {
		return tb.Bool(x.val.Cmp(y.val) == 0)
	}
	if x.w == SortBool {
		if x.IsTrue() {
			return y
		}
		if y.IsTrue() {
			return x
		}
		if x.IsFalse() {
			return tb.BNot(y)
		}
		if y.IsFalse() {
			return tb.BNot(x)
		}
	}
	if x.IsConst() {
		x, y = y, x
	}
	// y may be const now
	if y.IsConst() && x.w > 0 {
		switch x.op {
		case OpZExt:
			in := x.args[0]
			if y.val.BitLen() > in.w {
				return tb.False()
			}
			return tb.Eq(in, tb.BV(y.val, in.w))
		case OpIte:
			if x.args[1].IsConst() && x.args[2].IsConst() {
				return tb.Ite(x.args[0], tb.Eq(x.args[1], y), tb.Eq(x.args[2], y))
			}
		case OpConcat:
			l := x.args[1]
			return tb.BAnd(tb.Eq(x.args[0], tb.BV(new(big.Int).Rsh(y.val, uint(l.w)), x.args[0].w)),
				tb.Eq(l, tb.BV(y.val, l.w)))
		case OpAdd:
			if x.args[1].IsConst() {
				return tb.Eq(x.args[0], tb.Bin(OpSub, y, x.args[1]))
			}
		}
	}
	if x.id > y.id {
		x, y = y, x
	}
	return tb.mk(OpEq, SortBool, x, y)
}

func (tb *TermBank) Cmp(op Op, x, y *Term) *Term {
	if x.w != y.w || x.w <= 0 {
		panic(fmt.Sprintf("cmp width mismatch %d %d", x.w, y.w))
	}
	if x.IsConst() && y.IsConst() {
		a, b := x.val, y.val
		if op == OpSlt || op == OpSle {
			a, b = toSigned(a, x.w), toSigned(b, x.w)
		}
		c := a.Cmp(b)
		if op == OpUlt || op == OpSlt {
			return tb.Bool(c < 0)
		}
		return tb.Bool(c <= 0)
	}
	if x == y {
		return tb.Bool(op == OpUle || op == OpSle)
	}
	switch op {
	case OpUlt:
		if y.IsConst() && y.val.Sign() == 0 {
			return tb.False()
		}
		if x.IsConst() && x.val.Cmp(mask(x.w)) == 0 {
			return tb.False()
		}
		// zext(a) < const fitting: compare narrow
		if x.op == OpZExt && y.IsConst() {
			in := x.args[0]
			if y.val.BitLen() > in.w {
				return tb.True()
			}
			return tb.Cmp(OpUlt, in, tb.BV(y.val, in.w))
		}
	case OpUle:
		if x.IsConst() && x.val.Sign() == 0 {
			return tb.True()
		}
		if y.IsConst() && y.val.Cmp(mask(x.w)) == 0 {
			return tb.True()
		}
		if x.op == OpZExt && y.IsConst() {
			in := x.args[0]
			if y.val.BitLen() > in.w {
				return tb.True()
			}
			return tb.Cmp(OpUle, in, tb.BV(y.val, in.w))
		}
	}
	return tb.mk(op, SortBool, x, y)
}

func (tb *TermBank) BNot(x *Term) *Term {
	if x.IsConst() {
		return tb.Bool(!x.IsTrue())
	}
	if x.op == OpBNot {
		return x.args[0]
	}
	return tb.mk(OpBNot, SortBool, x)
}

func (tb *TermBank) BAnd(x, y *Term) *Term {
	if x.IsFalse() || y.IsFalse() {
		return tb.False()
	}
	if x.IsTrue() {
		return y
	}
	if y.IsTrue() {
		return x
	}
	if x == y {
		return x
	}
	if (x.op == OpBNot && x.args[0] == y) || (y.op == OpBNot && y.args[0] == x) {
		return tb.False()
	}
	return tb.mk(OpBAnd, SortBool, x, y)
}

func (tb *TermBank) BOr(x, y *Term) *Term {
	if x.IsTrue() || y.IsTrue() {
		return tb.True()
	}
	if x.IsFalse() {
		return y
	}
	if y.IsFalse() {
		return x
	}
	if x == y {
		return x
	}
	if (x.op == OpBNot && x.args[0] == y) || (y.op == OpBNot && y.args[0] == x) {
		return tb.True()
	}
	return tb.mk(OpBOr, SortBool, x, y)
}

func (tb *TermBank) Implies(x, y *Term) *Term { return tb.BOr(tb.BNot(x), y) }

func (tb *TermBank) ConstArr() *Term { return tb.mk(OpConstArr, SortArr) }

func (tb *TermBank) Select(a, i *Term) *Term {
	if a.w != SortArr || i.w != 64 {
		panic("select sorts")
	}
	for {
		switch a.op {
		case OpConstArr:
			return tb.BVu(0, 8)
		case OpStore:
			j := a.args[1]
			if j == i {
				return a.args[2]
			}
			if j.IsConst() && i.IsConst() {
				a = a.args[0]
				continue
			}
			// i = base+c1, j = base+c2 with c1 != c2
			if bi, ci := splitAdd(i); true {
				bj, cj := splitAdd(j)
				if bi == bj && ci.Cmp(cj) != 0 {
					a = a.args[0]
					continue
				}
			}
		case OpIte:
			// select over ite of arrays: push down when cheap
			if a.args[1].op == OpConstArr || a.args[2].op == OpConstArr {
				return tb.Ite(a.args[0], tb.Select(a.args[1], i), tb.Select(a.args[2], i))
			}
		}
		break
	}
	return tb.mk(OpSelect, 8, a, i)
}

// splitAdd decomposes t into (base, const) with t = base + const.
func splitAdd(t *Term) (*Term, *big.Int) {
	if t.IsConst() {
		return nil, t.val
	}
	if t.op == OpAdd && t.args[1].IsConst() {
		return t.args[0], t.args[1].val
	}
	return t, new(big.Int)
}

func (tb *TermBank) Store(a, i, v *Term) *Term {
	if a.w != SortArr || i.w != 64 || v.w != 8 {
		panic("store sorts")
	}
	// overwrite of the same index directly below
	if a.op == OpStore && a.args[1] == i {
		return tb.Store(a.args[0], i, v)
	}
	if a.op == OpConstArr && v.IsConst() && v.val.Sign() == 0 {
		return a
	}
	return tb.mk(OpStore, SortArr, a, i, v)
}

// UF applies an uninterpreted function; sig is the SMT signature used on
// first declaration, w the result width.
func (tb *TermBank) UF(name string, w int, args ...*Term) *Term {
	if _, ok := tb.ufs[name]; !ok {
		var sb strings.Builder
		sb.WriteString("(")
		for i, a := range args {
			if i > 0 {
				sb.WriteString(" ")
			}
			sb.WriteString(sortStr(a.w))
		}
		sb.WriteString(") " + sortStr(w))
		tb.ufs[name] = sb.String()
	}
	return tb.intern(&Term{op: OpUF, w: w, name: name, args: args})
}

func sortStr(w int) string {
	switch {
	case w == SortBool:
		return "Bool"
	case w == SortArr:
		return "(Array (_ BitVec 64) (_ BitVec 8))"
	}
	return fmt.Sprintf("(_ BitVec %d)", w)
}

func smtName(n string) string { return "|" + strings.NewReplacer("|", "_", "\\", "_").Replace(n) + "|" }

// ref returns the token used to reference t inside other definitions.
func (t *Term) ref() string {
	switch t.op {
	case OpConst:
		if t.w == SortBool {
			if t.val.Sign() != 0 {
				return "true"
			}
			return "false"
		}
		if t.w%4 == 0 {
			s := t.val.Text(16)
			return "#x" + strings.Repeat("0", t.w/4-len(s)) + s
		}
		s := t.val.Text(2)
		return "#b" + strings.Repeat("0", t.w-len(s)) + s
	case OpVar:
		return smtName(t.name)
	case OpConstArr:
		return "((as const (Array (_ BitVec 64) (_ BitVec 8))) #x00)"
	}
	return fmt.Sprintf("t%d", t.id)
}

// body returns the SMT expression of a non-leaf term over its children refs.
func (t *Term) body() string {
	var sb strings.Builder
	switch t.op {
	case OpExtract:
		fmt.Fprintf(&sb, "((_ extract %d %d) %s)", t.a, t.b, t.args[0].ref())
	case OpZExt:
		fmt.Fprintf(&sb, "((_ zero_extend %d) %s)", t.a, t.args[0].ref())
	case OpSExt:
		fmt.Fprintf(&sb, "((_ sign_extend %d) %s)", t.a, t.args[0].ref())
	case OpUF:
		if len(t.args) == 0 {
			return smtName(t.name)
		}
		sb.WriteString("(" + smtName(t.name))
		for _, a := range t.args {
			sb.WriteString(" " + a.ref())
		}
		sb.WriteString(")")
	default:
		sb.WriteString("(" + opNames[t.op])
		for _, a := range t.args {
			sb.WriteString(" " + a.ref())
		}
		sb.WriteString(")")
	}
	return sb.String()
}

func (t *Term) isLeaf() bool { return t.op == OpConst || t.op == OpVar || t.op == OpConstArr }

// String renders a term for diagnostics (bounded depth).
func (t *Term) String() string { return t.str(4) }
func (t *Term) str(d int) string {
	if t.isLeaf() {
		if t.op == OpConstArr {
			return "zeros"
		}
		return strings.Trim(t.ref(), "|")
	}
	if d == 0 {
		return fmt.Sprintf("t%d", t.id)
	}
	var sb strings.Builder
	switch t.op {
	case OpExtract:
		fmt.Fprintf(&sb, "%s[%d:%d]", t.args[0].str(d-1), t.a, t.b)
		return sb.String()
	case OpUF:
		sb.WriteString(t.name + "(")
	default:
		sb.WriteString(opNames[t.op] + "(")
		if t.op == OpZExt {
			sb.Reset()
			sb.WriteString("zext(")
		} else if t.op == OpSExt {
			sb.Reset()
			sb.WriteString("sext(")
		}
	}
	for i, a := range t.args {
		if i > 0 {
			sb.WriteString(",")
		}
		sb.WriteString(a.str(d - 1))
	}
	sb.WriteString(")")
	return sb.String()
}

// Const builds a constant of the given sort (Bool when w == 0).
func (tb *TermBank) Const(v *big.Int, w int) *Term {
	if w == SortBool {
		return tb.Bool(v.Sign() != 0)
	}
	return tb.BV(v, w)
}
