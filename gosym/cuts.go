package main

import (
	"encoding/json"
	"fmt"
	"os"
	"path/filepath"
	"strings"
)

type cutSpec struct {
	File string `json:"file"`
	Old  string `json:"old"`
	New  string `json:"new"`
	App  string `json:"append"`
}

// cutFiles regenerates, from the current sources, the files in which a cut-point
// function is renamed so that a shim (in the harness overlay) can interpose.
func cutFiles(harnessDir, repo string) (map[string][]byte, error) {
	b, err := os.ReadFile(filepath.Join(harnessDir, "cuts.json"))
	if err != nil {
		return nil, nil
	}
	var specs []cutSpec
	if err := json.Unmarshal(b, &specs); err != nil {
		return nil, err
	}
	out := map[string][]byte{}
	for _, c := range specs {
		f := c.File
		if strings.HasPrefix(f, "REPO/") {
			f = filepath.Join(repo, f[5:])
		} else if strings.HasPrefix(f, "MOD/") {
			f = filepath.Join(modCache(), f[4:])
		}
		src, ok := out[f]
		if !ok {
			src, err = os.ReadFile(f)
			if err != nil {
				return nil, err
			}
		}
		if strings.Count(string(src), c.Old) != 1 {
			return nil, fmt.Errorf("cut point %q not found exactly once in %s", c.Old, f)
		}
		res := strings.Replace(string(src), c.Old, c.New, 1)
		if c.App != "" {
			ab, err := os.ReadFile(filepath.Join(harnessDir, c.App))
			if err != nil {
				return nil, err
			}
			res += string(ab)
		}
		out[f] = []byte(res)
	}
	return out, nil
}

// pow2 returns k when t is the constant 2^k, else -1.
func pow2(t *Term) int {
	if !t.IsConst() || t.val.Sign() <= 0 {
		return -1
	}
	k := t.val.BitLen() - 1
	if t.val.TrailingZeroBits() != uint(k) {
		return -1
	}
	return k
}
