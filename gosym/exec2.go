package main

import (
	"fmt"
	"go/token"
	"go/types"

	"golang.org/x/tools/go/ssa"
)

func (e *Exec) exec(fr *frame, in ssa.Instruction) {
	tb := e.tb
	switch x := in.(type) {
	case *ssa.DebugRef:
	case *ssa.Alloc:
		elem := x.Type().(*types.Pointer).Elem()
		o := e.newObj(e.zero(elem), elem, x.Comment)
		fr.locals[x] = Ptr{obj: o}
	case *ssa.Store:
		e.store(e.get(fr, x.Addr).(Ptr), e.get(fr, x.Val))
	case *ssa.UnOp:
		fr.locals[x] = e.unop(fr, x)
	case *ssa.BinOp:
		fr.locals[x] = e.binop(x.Op, e.get(fr, x.X), e.get(fr, x.Y), x.X.Type())
	case *ssa.Call:
		if e.inInit && fr.fn.Synthetic == "package initializer" && !e.strictInit[fr.fn.Pkg] {
			fr.locals[x] = e.lenientCall(fr, x)
		} else {
			fr.locals[x] = e.doCall(fr, &x.Call, x)
		}
	case *ssa.Defer:
		d := e.prepCall(fr, &x.Call)
		fr.defers = append(fr.defers, d)
	case *ssa.Go:
		panic(unsupported("go statement"))
	case *ssa.ChangeInterface:
		fr.locals[x] = e.get(fr, x.X)
	case *ssa.ChangeType:
		fr.locals[x] = e.get(fr, x.X)
	case *ssa.Convert:
		fr.locals[x] = e.convert(e.get(fr, x.X), x.X.Type(), x.Type())
	case *ssa.Extract:
		fr.locals[x] = e.get(fr, x.Tuple).(Tuple)[x.Index]
	case *ssa.Field:
		fr.locals[x] = e.get(fr, x.X).(Struct)[x.Field]
	case *ssa.FieldAddr:
		p := e.get(fr, x.X).(Ptr)
		if p.obj == nil {
			e.goPanic("runtime error: invalid memory address or nil pointer dereference")
		}
		if _, isBig := getAt(p.obj.val, p.path, e).(BigV); isBig {
			panic(unsupported("field address into big.Int"))
		}
		fr.locals[x] = p.ext(PE{i: x.Field})
	case *ssa.Index:
		fr.locals[x] = e.index(e.get(fr, x.X), e.get(fr, x.Index).(*Term), x.Index.Type())
	case *ssa.IndexAddr:
		fr.locals[x] = e.indexAddr(e.get(fr, x.X), e.get(fr, x.Index).(*Term), x.Index.Type(), x.X.Type())
	case *ssa.Lookup:
		fr.locals[x] = e.lookup(fr, x)
	case *ssa.MakeClosure:
		fv := &Func{fn: x.Fn.(*ssa.Function)}
		for _, b := range x.Bindings {
			fv.free = append(fv.free, e.get(fr, b))
		}
		fr.locals[x] = fv
	case *ssa.MakeInterface:
		fr.locals[x] = Iface{typ: x.X.Type(), val: e.get(fr, x.X)}
	case *ssa.MakeMap:
		fr.locals[x] = MapRef{obj: e.newObj(&MapV{}, x.Type(), "map")}
	case *ssa.MakeSlice:
		fr.locals[x] = e.makeSlice(x.Type(), e.toInt(e.get(fr, x.Len).(*Term), x.Len.Type()), e.toInt(e.get(fr, x.Cap).(*Term), x.Cap.Type()))
	case *ssa.MapUpdate:
		e.mapUpdate(e.get(fr, x.Map).(MapRef), e.get(fr, x.Key), e.get(fr, x.Value))
	case *ssa.Range:
		fr.locals[x] = e.rangeInit(e.get(fr, x.X))
	case *ssa.Next:
		fr.locals[x] = e.rangeNext(e.get(fr, x.Iter).(Ptr), x)
	case *ssa.Slice:
		fr.locals[x] = e.sliceOp(fr, x)
	case *ssa.TypeAssert:
		fr.locals[x] = e.typeAssert(e.get(fr, x.X).(Iface), x)
	case *ssa.SliceToArrayPointer:
		s := e.get(fr, x.X).(Slice)
		n := x.Type().(*types.Pointer).Elem().Underlying().(*types.Array).Len()
		if !e.branch(tb.Cmp(OpUle, tb.BVu(uint64(n), 64), s.len)) {
			e.goPanic("runtime error: cannot convert slice to array pointer: length too short")
		}
		off := e.concretize(s.off, "slice-to-array-pointer offset")
		if off != 0 {
			panic(unsupported("slice to array pointer with non-zero offset"))
		}
		fr.locals[x] = s.base
	default:
		panic(unsupported(fmt.Sprintf("instruction %T", in)))
	}
}

func (e *Exec) toInt(t *Term, typ types.Type) *Term {
	if t.w == 64 {
		return t
	}
	if isSigned(typ) {
		return e.tb.SExt(t, 64)
	}
	return e.tb.ZExt(t, 64)
}

func (e *Exec) unop(fr *frame, x *ssa.UnOp) Value {
	v := e.get(fr, x.X)
	switch x.Op {
	case token.MUL:
		return e.load(v.(Ptr))
	case token.NOT:
		return e.tb.BNot(v.(*Term))
	case token.SUB:
		return e.tb.Neg(v.(*Term))
	case token.XOR:
		return e.tb.Not(v.(*Term))
	}
	panic(unsupported("unop " + x.Op.String()))
}

func (e *Exec) binop(op token.Token, a, b Value, typ types.Type) Value {
	tb := e.tb
	switch op {
	case token.EQL:
		return e.eqVal(a, b)
	case token.NEQ:
		return tb.BNot(e.eqVal(a, b))
	}
	if sa, ok := a.(Str); ok {
		sb := b.(Str)
		switch op {
		case token.ADD:
			return e.strCat(sa, sb)
		case token.LSS:
			return e.strLess(sa, sb)
		case token.GTR:
			return e.strLess(sb, sa)
		case token.LEQ:
			return tb.BNot(e.strLess(sb, sa))
		case token.GEQ:
			return tb.BNot(e.strLess(sa, sb))
		}
	}
	x, okx := a.(*Term)
	y, oky := b.(*Term)
	if !okx || !oky {
		panic(unsupported(fmt.Sprintf("binop %s on %T,%T", op, a, b)))
	}
	signed := isSigned(typ)
	if x.w == SortBool {
		switch op {
		case token.AND, token.LAND:
			return tb.BAnd(x, y)
		case token.OR, token.LOR:
			return tb.BOr(x, y)
		}
		panic(unsupported("bool binop " + op.String()))
	}
	if bt, ok := typ.Underlying().(*types.Basic); ok && bt.Info()&types.IsFloat != 0 {
		panic(unsupported("floating point arithmetic"))
	}
	switch op {
	case token.ADD:
		return tb.Bin(OpAdd, x, y)
	case token.SUB:
		return tb.Bin(OpSub, x, y)
	case token.MUL:
		return tb.Bin(OpMul, x, y)
	case token.QUO, token.REM:
		if e.branch(tb.Eq(y, tb.BVu(0, y.w))) {
			e.goPanic("runtime error: integer divide by zero")
		}
		if op == token.QUO {
			if signed {
				return tb.Bin(OpSDiv, x, y)
			}
			return tb.Bin(OpUDiv, x, y)
		}
		if signed {
			return tb.Bin(OpSRem, x, y)
		}
		return tb.Bin(OpURem, x, y)
	case token.AND:
		return tb.Bin(OpAnd, x, y)
	case token.OR:
		return tb.Bin(OpOr, x, y)
	case token.XOR:
		return tb.Bin(OpXor, x, y)
	case token.AND_NOT:
		return tb.Bin(OpAnd, x, tb.Not(y))
	case token.SHL, token.SHR:
		// y may have another width (and is unsigned or a non-negative signed value)
		var amt *Term
		big := tb.False()
		if y.w > x.w {
			big = tb.Cmp(OpUle, tb.BVu(uint64(x.w), y.w), y)
			amt = tb.Extract(y, x.w-1, 0)
		} else {
			amt = tb.ZExt(y, x.w)
		}
		var r, ov *Term
		if op == token.SHL {
			r, ov = tb.Bin(OpShl, x, amt), tb.BVu(0, x.w)
		} else if signed {
			r, ov = tb.Bin(OpAShr, x, amt), tb.Bin(OpAShr, x, tb.BVu(uint64(x.w-1), x.w))
		} else {
			r, ov = tb.Bin(OpLShr, x, amt), tb.BVu(0, x.w)
		}
		return tb.Ite(big, ov, r)
	case token.LSS:
		if signed {
			return tb.Cmp(OpSlt, x, y)
		}
		return tb.Cmp(OpUlt, x, y)
	case token.LEQ:
		if signed {
			return tb.Cmp(OpSle, x, y)
		}
		return tb.Cmp(OpUle, x, y)
	case token.GTR:
		if signed {
			return tb.Cmp(OpSlt, y, x)
		}
		return tb.Cmp(OpUlt, y, x)
	case token.GEQ:
		if signed {
			return tb.Cmp(OpSle, y, x)
		}
		return tb.Cmp(OpUle, y, x)
	}
	panic(unsupported("binop " + op.String()))
}

// eqVal builds the equality term of two values of the same type.
func (e *Exec) eqVal(a, b Value) *Term {
	tb := e.tb
	switch x := a.(type) {
	case *Term:
		return tb.Eq(x, b.(*Term))
	case Ptr:
		y := b.(Ptr)
		if x.obj != y.obj || len(x.path) != len(y.path) {
			return tb.False()
		}
		r := tb.True()
		for i := range x.path {
			p, q := x.path[i], y.path[i]
			if p.sym == nil && q.sym == nil {
				if p.i != q.i {
					return tb.False()
				}
				continue
			}
			ps, qs := p.sym, q.sym
			if ps == nil {
				ps = tb.BVu(uint64(p.i), 64)
			}
			if qs == nil {
				qs = tb.BVu(uint64(q.i), 64)
			}
			r = tb.BAnd(r, tb.Eq(ps, qs))
		}
		return r
	case Struct:
		y := b.(Struct)
		r := tb.True()
		for i := range x {
			r = tb.BAnd(r, e.eqVal(x[i], y[i]))
		}
		return r
	case Vec:
		y := b.(Vec)
		r := tb.True()
		for i := range x {
			r = tb.BAnd(r, e.eqVal(x[i], y[i]))
		}
		return r
	case BArr:
		y := b.(BArr)
		if x.t == y.t {
			return tb.True()
		}
		r := tb.True()
		for i := 0; i < x.n; i++ {
			k := tb.BVu(uint64(i), 64)
			r = tb.BAnd(r, tb.Eq(tb.Select(x.t, k), tb.Select(y.t, k)))
		}
		return r
	case Str:
		return e.eqStr(x, b.(Str))
	case Iface:
		y := b.(Iface)
		if x.typ == nil || y.typ == nil {
			return tb.Bool(x.typ == nil && y.typ == nil)
		}
		if !types.Identical(x.typ, y.typ) {
			return tb.False()
		}
		return e.eqVal(x.val, y.val)
	case *Func:
		y, _ := b.(*Func)
		if x == nil || y == nil {
			return tb.Bool(x == nil && y == nil)
		}
		panic(unsupported("comparison of non-nil funcs"))
	case MapRef:
		y := b.(MapRef)
		return tb.Bool(x.obj == y.obj)
	case Slice:
		y := b.(Slice)
		// only comparison with nil is legal
		if y.base.obj == nil && x.base.obj == nil {
			return tb.True()
		}
		return tb.False()
	case BigV:
		return tb.Eq(x.t, b.(BigV).t)
	case nil:
		return tb.Bool(b == nil)
	}
	panic(unsupported(fmt.Sprintf("equality on %T", a)))
}

func (e *Exec) eqStr(x, y Str) *Term {
	tb := e.tb
	if x.arr == y.arr && x.off == y.off && x.len == y.len {
		return tb.True()
	}
	if x.minrep != nil && y.minrep != nil {
		return tb.Eq(x.minrep, y.minrep)
	}
	r := tb.Eq(x.len, y.len)
	if r.IsFalse() {
		return r
	}
	n := x.max
	if y.max < n {
		n = y.max
	}
	if c, ok := x.len.ConstU64(); ok && int(c) < n {
		n = int(c)
	}
	if c, ok := y.len.ConstU64(); ok && int(c) < n {
		n = int(c)
	}
	for k := 0; k < n; k++ {
		kk := tb.BVu(uint64(k), 64)
		eq := tb.Eq(tb.Select(x.arr, tb.Bin(OpAdd, x.off, kk)), tb.Select(y.arr, tb.Bin(OpAdd, y.off, kk)))
		r = tb.BAnd(r, tb.BOr(tb.Cmp(OpUle, x.len, kk), eq))
	}
	return r
}

// strLess is the lexicographic (bytewise) order of two bounded strings.
func (e *Exec) strLess(a, b Str) *Term {
	tb := e.tb
	n := a.max
	if b.max > n {
		n = b.max
	}
	// beyond position n both strings are exhausted: not less
	less := tb.False()
	for k := n - 1; k >= 0; k-- {
		kk := tb.BVu(uint64(k), 64)
		aEnd := tb.Cmp(OpUle, a.len, kk)
		bEnd := tb.Cmp(OpUle, b.len, kk)
		ak := tb.Select(a.arr, tb.Bin(OpAdd, a.off, kk))
		bk := tb.Select(b.arr, tb.Bin(OpAdd, b.off, kk))
		here := tb.Ite(tb.Cmp(OpUlt, ak, bk), tb.True(), tb.Ite(tb.Cmp(OpUlt, bk, ak), tb.False(), less))
		less = tb.Ite(aEnd, tb.BNot(bEnd), tb.Ite(bEnd, tb.False(), here))
	}
	return less
}

// blend writes n bytes of src (from soff) into dst at doff; n may be symbolic
// and is bounded by max (unrolling bound).  src is a snapshot, so overlapping
// ranges have memmove semantics.
func (e *Exec) blend(dst *Term, doff *Term, src *Term, soff *Term, n *Term, max int) *Term {
	tb := e.tb
	if c, ok := n.ConstU64(); ok && int(c) <= max {
		max = int(c)
	}
	res := dst
	for k := 0; k < max; k++ {
		kk := tb.BVu(uint64(k), 64)
		di := tb.Bin(OpAdd, doff, kk)
		sv := tb.Select(src, tb.Bin(OpAdd, soff, kk))
		guard := tb.Cmp(OpUlt, kk, n)
		if !guard.IsTrue() {
			sv = tb.Ite(guard, sv, tb.Select(dst, di))
		}
		res = tb.Store(res, di, sv)
	}
	return res
}

func (e *Exec) strCat(a, b Str) Str {
	tb := e.tb
	if b.max == 0 {
		return a
	}
	if a.max == 0 {
		return b
	}
	arr := e.blend(a.arr, tb.Bin(OpAdd, a.off, a.len), b.arr, b.off, b.len, b.max)
	return Str{arr: arr, off: a.off, len: tb.Bin(OpAdd, a.len, b.len), max: a.max + b.max}
}

func (e *Exec) convert(v Value, from, to types.Type) Value {
	tb := e.tb
	fu, tu := from.Underlying(), to.Underlying()
	switch t := v.(type) {
	case *Term:
		tbasic, ok := tu.(*types.Basic)
		if !ok {
			panic(unsupported("convert scalar to " + to.String()))
		}
		if tbasic.Info()&types.IsString != 0 {
			// string(rune/byte)
			if c, ok := t.ConstU64(); ok && c < 0x80 {
				return e.strConst(string(rune(c)))
			}
			panic(unsupported("string(int) of symbolic value"))
		}
		fb := fu.(*types.Basic)
		if fb.Info()&types.IsFloat != 0 || tbasic.Info()&types.IsFloat != 0 {
			panic(unsupported("float conversion"))
		}
		w := basicWidth(tbasic)
		if w <= 0 {
			panic(unsupported("convert to " + to.String()))
		}
		if t.w == w {
			return t
		}
		if w < t.w {
			return tb.Extract(t, w-1, 0)
		}
		if isSigned(from) {
			return tb.SExt(t, w)
		}
		return tb.ZExt(t, w)
	case Str:
		if _, ok := tu.(*types.Slice); ok {
			// []byte(s): fresh backing store holding a snapshot
			o := e.newObj(BArr{t.arr, -1}, nil, "bytes(string)")
			e.workCopy = tb.Bin(OpAdd, e.workCopy, t.len)
			e.workAlloc = tb.Bin(OpAdd, e.workAlloc, t.len)
			return Slice{base: Ptr{obj: o}, off: t.off, len: t.len, cap: t.len, max: t.max}
		}
		return t
	case Slice:
		if tb2, ok := tu.(*types.Basic); ok && tb2.Info()&types.IsString != 0 {
			if t.base.obj == nil {
				return Str{arr: tb.ConstArr(), off: tb.BVu(0, 64), len: tb.BVu(0, 64)}
			}
			ba, ok := e.load(t.base).(BArr)
			if !ok {
				panic(unsupported("string([]rune)"))
			}
			e.workCopy = tb.Bin(OpAdd, e.workCopy, t.len)
			e.workAlloc = tb.Bin(OpAdd, e.workAlloc, t.len)
			return Str{arr: ba.t, off: t.off, len: t.len, max: t.max}
		}
		return t
	case Ptr:
		return t
	}
	panic(unsupported(fmt.Sprintf("convert %T from %s to %s", v, from, to)))
}

// inBounds emits the proof obligation 0 <= i < n for an index of Go type ityp.
func (e *Exec) checkIndex(i *Term, ityp types.Type, n *Term) *Term {
	i64 := e.toInt(i, ityp)
	// as unsigned comparison this also rejects negative values
	if !e.branch(e.tb.Cmp(OpUlt, i64, n)) {
		e.goPanic("runtime error: index out of range")
	}
	return i64
}

func (e *Exec) index(x Value, i *Term, ityp types.Type) Value {
	tb := e.tb
	switch a := x.(type) {
	case Vec:
		i64 := e.checkIndex(i, ityp, tb.BVu(uint64(len(a)), 64))
		if c, ok := i64.ConstU64(); ok {
			return a[c]
		}
		// symbolic index into scalar vector: ite chain
		if len(a) > 0 {
			if _, ok := a[0].(*Term); ok {
				r := a[len(a)-1].(*Term)
				for k := len(a) - 2; k >= 0; k-- {
					r = tb.Ite(tb.Eq(i64, tb.BVu(uint64(k), 64)), a[k].(*Term), r)
				}
				return r
			}
		}
		return a[e.concretize(i64, "array index")]
	case BArr:
		i64 := e.checkIndex(i, ityp, tb.BVu(uint64(a.n), 64))
		return tb.Select(a.t, i64)
	case Str:
		i64 := e.checkIndex(i, ityp, a.len)
		return tb.Select(a.arr, tb.Bin(OpAdd, a.off, i64))
	}
	panic(unsupported(fmt.Sprintf("index on %T", x)))
}

func (e *Exec) indexAddr(x Value, i *Term, ityp types.Type, xtyp types.Type) Value {
	tb := e.tb
	switch a := x.(type) {
	case Ptr: // pointer to array
		if a.obj == nil {
			e.goPanic("runtime error: invalid memory address or nil pointer dereference")
		}
		arr := xtyp.Underlying().(*types.Pointer).Elem().Underlying().(*types.Array)
		i64 := e.checkIndex(i, ityp, tb.BVu(uint64(arr.Len()), 64))
		if isByte(arr.Elem()) {
			if c, ok := i64.ConstU64(); ok {
				return a.ext(PE{i: int(c)})
			}
			return a.ext(PE{sym: i64})
		}
		return a.ext(PE{i: int(e.concretize(i64, "array index"))})
	case Slice:
		i64 := e.checkIndex(i, ityp, a.len)
		if a.base.obj == nil {
			e.goPanic("runtime error: index out of range (nil slice)")
		}
		idx := tb.Bin(OpAdd, a.off, i64)
		if _, ok := e.load(a.base).(BArr); ok {
			if c, ok := idx.ConstU64(); ok {
				return a.base.ext(PE{i: int(c)})
			}
			return a.base.ext(PE{sym: idx})
		}
		return a.base.ext(PE{i: int(e.concretize(idx, "slice index"))})
	}
	panic(unsupported(fmt.Sprintf("indexAddr on %T", x)))
}

func (e *Exec) makeSlice(t types.Type, n, c *Term) Value {
	tb := e.tb
	elem := t.Underlying().(*types.Slice).Elem()
	// Go panics if len < 0 || len > cap || cap too large
	if !e.branch(tb.Cmp(OpSle, tb.BVu(0, 64), n)) {
		e.goPanic("runtime error: makeslice: len out of range")
	}
	if !e.branch(tb.Cmp(OpUle, n, c)) {
		e.goPanic("runtime error: makeslice: cap out of range")
	}
	if isByte(elem) {
		if e.h.ConcreteMake && !e.inInit {
			// harness option: case-split allocation sizes so that fills and copies unroll exactly
			if _, ok := c.ConstU64(); !ok && e.branch(tb.Cmp(OpUle, c, tb.BVu(uint64(e.h.BufMax), 64))) && e.fewValues(c, 8) {
				cv := e.concretize(c, "make size")
				c = tb.BVu(cv, 64)
				if _, ok := n.ConstU64(); !ok {
					n = tb.BVu(e.concretize(n, "make len"), 64)
				}
			}
		}
		max := e.h.BufMax
		if cc, ok := c.ConstU64(); ok && cc <= 1<<20 {
			max = int(cc)
		} else if !e.branch(tb.Cmp(OpUle, c, tb.BVu(uint64(max), 64))) {
			// Go itself panics beyond the address space
			if !e.branch(tb.Cmp(OpUle, c, tb.BVu(1<<47, 64))) {
				e.goPanic("runtime error: makeslice: len out of range")
			}
			if e.h.OOBHook != "" && !e.inOOBHook {
				// the allocation is larger than the encoding's buffers: the harness still gets to
				// judge its size (C20: has the gas charged so far paid for it?)
				if hp := e.eng.findPkg(e.h.Pkg); hp != nil {
					if hf := hp.Func(e.h.OOBHook); hf != nil {
						e.inOOBHook = true
						e.callFn(hf, []Value{c})
						e.inOOBHook = false
					}
				}
			}
			e.handleLimit("oob", fmt.Sprintf("make([]byte, n) with n possibly > %d at %s", max, e.curSite()))
		} else if !ok {
			max = e.tightBound(c, max)
		}
		e.workAlloc = tb.Bin(OpAdd, e.workAlloc, c)
		o := e.newObj(BArr{tb.ConstArr(), -1}, nil, "make")
		return Slice{base: Ptr{obj: o}, off: tb.BVu(0, 64), len: n, cap: c, max: max}
	}
	cc := e.concretize(c, "make cap")
	if cc > 1<<16 {
		panic(unsupported("make of large non-byte slice"))
	}
	v := make(Vec, cc)
	z := e.zero(elem)
	for i := range v {
		v[i] = z
	}
	o := e.newObj(v, nil, "make")
	return Slice{base: Ptr{obj: o}, off: tb.BVu(0, 64), len: n, cap: c, max: int(cc)}
}

func (e *Exec) sliceOp(fr *frame, x *ssa.Slice) Value {
	tb := e.tb
	v := e.get(fr, x.X)
	var lo, hi, mx *Term
	if x.Low != nil {
		lo = e.toInt(e.get(fr, x.Low).(*Term), x.Low.Type())
	} else {
		lo = tb.BVu(0, 64)
	}
	if x.High != nil {
		hi = e.toInt(e.get(fr, x.High).(*Term), x.High.Type())
	}
	if x.Max != nil {
		mx = e.toInt(e.get(fr, x.Max).(*Term), x.Max.Type())
	}
	check := func(c *Term) {
		if !e.branch(c) {
			e.goPanic("runtime error: slice bounds out of range")
		}
	}
	switch a := v.(type) {
	case Str:
		if hi == nil {
			hi = a.len
		}
		check(tb.Cmp(OpUle, hi, a.len))
		check(tb.Cmp(OpUle, lo, hi))
		n := tb.Bin(OpSub, hi, lo)
		max := a.max
		if c, ok := n.ConstU64(); ok && int(c) < max {
			max = int(c)
		}
		return Str{arr: a.arr, off: tb.Bin(OpAdd, a.off, lo), len: n, max: max}
	case Slice:
		if hi == nil {
			hi = a.len
		}
		cp := a.cap
		if mx != nil {
			check(tb.Cmp(OpUle, mx, a.cap))
			check(tb.Cmp(OpUle, hi, mx))
			cp = mx
		} else {
			check(tb.Cmp(OpUle, hi, a.cap))
		}
		check(tb.Cmp(OpUle, lo, hi))
		n := tb.Bin(OpSub, hi, lo)
		ncap := tb.Bin(OpSub, cp, lo)
		max := a.max
		if c, ok := ncap.ConstU64(); ok && int(c) < max {
			max = int(c)
		}
		if a.base.obj == nil {
			return Slice{off: tb.BVu(0, 64), len: tb.BVu(0, 64), cap: tb.BVu(0, 64)}
		}
		return Slice{base: a.base, off: tb.Bin(OpAdd, a.off, lo), len: n, cap: ncap, max: max}
	case Ptr: // pointer to array
		if a.obj == nil {
			e.goPanic("runtime error: invalid memory address or nil pointer dereference")
		}
		arr := x.X.Type().Underlying().(*types.Pointer).Elem().Underlying().(*types.Array)
		alen := tb.BVu(uint64(arr.Len()), 64)
		if hi == nil {
			hi = alen
		}
		cp := alen
		if mx != nil {
			check(tb.Cmp(OpUle, mx, alen))
			check(tb.Cmp(OpUle, hi, mx))
			cp = mx
		} else {
			check(tb.Cmp(OpUle, hi, alen))
		}
		check(tb.Cmp(OpUle, lo, hi))
		return Slice{base: a, off: lo, len: tb.Bin(OpSub, hi, lo), cap: tb.Bin(OpSub, cp, lo), max: int(arr.Len())}
	}
	panic(unsupported(fmt.Sprintf("slice of %T", v)))
}

func (e *Exec) typeAssert(ifc Iface, x *ssa.TypeAssert) Value {
	ok := false
	if ifc.typ != nil {
		if it, isI := x.AssertedType.Underlying().(*types.Interface); isI {
			ok = types.Implements(ifc.typ, it)
		} else {
			ok = types.Identical(ifc.typ, x.AssertedType)
		}
	}
	_, toIface := x.AssertedType.Underlying().(*types.Interface)
	var res Value
	if ok {
		if toIface {
			res = ifc
		} else {
			res = ifc.val
		}
	} else {
		res = e.zero(x.AssertedType)
	}
	if x.CommaOk {
		return Tuple{res, e.tb.Bool(ok)}
	}
	if !ok {
		tn := "nil"
		if ifc.typ != nil {
			tn = ifc.typ.String()
		}
		e.goPanic("interface conversion: interface is " + tn + ", not " + x.AssertedType.String())
	}
	return res
}

// ---------------------------------------------------------------- maps

func (e *Exec) mapFind(m *MapV, k Value) int {
	for i, en := range m.ents {
		if e.branch(e.eqVal(en.k, k)) {
			return i
		}
	}
	return -1
}

func (e *Exec) lookup(fr *frame, x *ssa.Lookup) Value {
	c := e.get(fr, x.X)
	k := e.get(fr, x.Index)
	if s, ok := c.(Str); ok {
		return e.index(s, k.(*Term), x.Index.Type())
	}
	m := c.(MapRef)
	vt := x.X.Type().Underlying().(*types.Map).Elem()
	var res Value
	found := false
	if m.obj != nil {
		mv := m.obj.val.(*MapV)
		if i := e.mapFind(mv, k); i >= 0 {
			res, found = mv.ents[i].v, true
		}
	}
	if !found {
		res = e.zero(vt)
	}
	if x.CommaOk {
		return Tuple{res, e.tb.Bool(found)}
	}
	return res
}

func (e *Exec) mapUpdate(m MapRef, k, v Value) {
	if m.obj == nil {
		e.goPanic("assignment to entry in nil map")
	}
	if m.obj.init && !e.inInit {
		e.noteSharedWrite(m.obj)
	}
	mv := m.obj.val.(*MapV)
	i := e.mapFind(mv, k)
	nm := &MapV{ents: make([]MapEnt, len(mv.ents), len(mv.ents)+1)}
	copy(nm.ents, mv.ents)
	if i >= 0 {
		nm.ents[i].v = v
	} else {
		nm.ents = append(nm.ents, MapEnt{k, v})
	}
	m.obj.val = nm
}

func (e *Exec) mapDelete(m MapRef, k Value) {
	if m.obj == nil {
		return
	}
	mv := m.obj.val.(*MapV)
	i := e.mapFind(mv, k)
	if i < 0 {
		return
	}
	if m.obj.init && !e.inInit {
		e.noteSharedWrite(m.obj)
	}
	nm := &MapV{}
	nm.ents = append(nm.ents, mv.ents[:i]...)
	nm.ents = append(nm.ents, mv.ents[i+1:]...)
	m.obj.val = nm
}

// rangeIter is the state of a map/string iteration: a heap cell holding the
// remaining entries.
type rangeIter struct {
	ents []MapEnt
	str  *Str
	pos  int
}

func (e *Exec) rangeInit(x Value) Value {
	it := &rangeIter{}
	switch m := x.(type) {
	case MapRef:
		if m.obj != nil {
			it.ents = append(it.ents, m.obj.val.(*MapV).ents...)
		}
	case Str:
		it.str = &m
	default:
		panic(unsupported(fmt.Sprintf("range over %T", x)))
	}
	return Ptr{obj: e.newObj(it, nil, "iter")}
}

func (e *Exec) rangeNext(p Ptr, x *ssa.Next) Value {
	tb := e.tb
	it := p.obj.val.(*rangeIter)
	if x.IsString {
		s := *it.str
		n := e.concretize(s.len, "range over string length")
		if it.pos >= int(n) {
			return Tuple{tb.False(), tb.BVu(0, 64), tb.BVu(0, 32)}
		}
		b := tb.Select(s.arr, tb.Bin(OpAdd, s.off, tb.BVu(uint64(it.pos), 64)))
		if !e.branch(tb.Cmp(OpUlt, b, tb.BVu(0x80, 8))) {
			panic(unsupported("range over non-ASCII string"))
		}
		i := it.pos
		it.pos++
		return Tuple{tb.True(), tb.BVu(uint64(i), 64), tb.ZExt(b, 32)}
	}
	mt := x.Iter.(*ssa.Range).X.Type().Underlying().(*types.Map)
	if len(it.ents) == 0 {
		return Tuple{tb.False(), e.zero(mt.Key()), e.zero(mt.Elem())}
	}
	pick := 0
	if e.h.MapOrder == "any" && len(it.ents) > 1 && !e.inInit {
		// Go's iteration order is unspecified: fork over which entry comes next
		for pick = 0; pick < len(it.ents)-1; pick++ {
			c := e.fresh("maporder", SortBool)
			if e.branch(c) {
				break
			}
		}
	}
	en := it.ents[pick]
	rest := append([]MapEnt{}, it.ents[:pick]...)
	rest = append(rest, it.ents[pick+1:]...)
	it.ents = rest
	return Tuple{tb.True(), en.k, en.v}
}

// ---------------------------------------------------------------- calls

func (e *Exec) prepCall(fr *frame, c *ssa.CallCommon) deferred {
	var d deferred
	if c.IsInvoke() {
		d.fn = e.get(fr, c.Value)
		d.inv = c.Method
	} else {
		d.fn = e.get(fr, c.Value)
	}
	for _, a := range c.Args {
		d.args = append(d.args, e.get(fr, a))
	}
	return d
}

func (e *Exec) doCall(fr *frame, c *ssa.CallCommon, instr *ssa.Call) Value {
	if c.IsInvoke() {
		d := e.prepCall(fr, c)
		return e.invoke(d.fn, d.inv, d.args)
	}
	switch f := c.Value.(type) {
	case *ssa.Builtin:
		args := make([]Value, len(c.Args))
		for i, a := range c.Args {
			args[i] = e.get(fr, a)
		}
		return e.callBuiltin(f.Name(), args, c)
	case *ssa.Function:
		args := make([]Value, len(c.Args))
		for i, a := range c.Args {
			args[i] = e.get(fr, a)
		}
		if f.Synthetic == "package initializer" {
			return nil // dependency initialisers are run on demand
		}
		return e.callFn(f, args)
	}
	d := e.prepCall(fr, c)
	return e.callValue(d.fn, d.args, nil)
}

func (e *Exec) callBuiltin(name string, args []Value, c *ssa.CallCommon) Value {
	tb := e.tb
	switch name {
	case "len":
		switch a := args[0].(type) {
		case Slice:
			return a.len
		case Str:
			return a.len
		case MapRef:
			if a.obj == nil {
				return tb.BVu(0, 64)
			}
			return tb.BVu(uint64(len(a.obj.val.(*MapV).ents)), 64)
		case Vec:
			return tb.BVu(uint64(len(a)), 64)
		case BArr:
			return tb.BVu(uint64(a.n), 64)
		case Ptr:
			if c != nil {
				if arr, ok := c.Args[0].Type().Underlying().(*types.Pointer).Elem().Underlying().(*types.Array); ok {
					return tb.BVu(uint64(arr.Len()), 64)
				}
			}
		}
	case "cap":
		switch a := args[0].(type) {
		case Slice:
			return a.cap
		case Vec:
			return tb.BVu(uint64(len(a)), 64)
		case BArr:
			return tb.BVu(uint64(a.n), 64)
		}
	case "append":
		return e.appendOp(args[0].(Slice), args[1], c)
	case "copy":
		return e.copyOp(args[0].(Slice), args[1])
	case "delete":
		e.mapDelete(args[0].(MapRef), args[1])
		return nil
	case "print", "println":
		return nil
	case "recover":
		if e.recoverSlot != nil && *e.recoverSlot != nil {
			gp := *e.recoverSlot
			*e.recoverSlot = nil
			if gp.val != nil {
				return gp.val
			}
			return Iface{typ: types.Typ[types.String], val: e.strConst(gp.msg)}
		}
		return Iface{}
	case "ssa:wrapnilchk":
		p := args[0].(Ptr)
		if p.obj == nil {
			e.goPanic("value method called using nil pointer")
		}
		return p
	case "min", "max":
		x, y := args[0].(*Term), args[1].(*Term)
		signed := c != nil && isSigned(c.Args[0].Type())
		op := OpUlt
		if signed {
			op = OpSlt
		}
		lt := tb.Cmp(op, x, y)
		if name == "min" {
			return tb.Ite(lt, x, y)
		}
		return tb.Ite(lt, y, x)
	}
	panic(unsupported("builtin " + name))
}

func (e *Exec) bytesOf(v Value) (arr *Term, off, n *Term, max int, ok bool) {
	switch s := v.(type) {
	case Str:
		return s.arr, s.off, s.len, s.max, true
	case Slice:
		if s.base.obj == nil {
			return e.tb.ConstArr(), e.tb.BVu(0, 64), e.tb.BVu(0, 64), 0, true
		}
		ba, isB := e.load(s.base).(BArr)
		if !isB {
			return nil, nil, nil, 0, false
		}
		return ba.t, s.off, s.len, s.max, true
	}
	return nil, nil, nil, 0, false
}

func (e *Exec) storeArr(base Ptr, t *Term) {
	old := e.load(base).(BArr)
	e.store(base, BArr{t, old.n})
}

func (e *Exec) copyOp(dst Slice, src Value) Value {
	tb := e.tb
	sarr, soff, slen, smax, isBytes := e.bytesOf(src)
	if isBytes {
		// n = min(len(dst), len(src))
		n := tb.Ite(tb.Cmp(OpUlt, dst.len, slen), dst.len, slen)
		max := smax
		if dst.max < max {
			max = dst.max
		}
		if dst.base.obj == nil || max == 0 {
			return n
		}
		darr := e.load(dst.base).(BArr)
		e.storeArr(dst.base, e.blend(darr.t, dst.off, sarr, soff, n, max))
		e.workCopy = tb.Bin(OpAdd, e.workCopy, n)
		return n
	}
	s := src.(Slice)
	dl := e.concretize(dst.len, "copy dst len")
	sl := e.concretize(s.len, "copy src len")
	n := dl
	if sl < n {
		n = sl
	}
	if n == 0 {
		return tb.BVu(0, 64)
	}
	do := e.concretize(dst.off, "copy dst off")
	so := e.concretize(s.off, "copy src off")
	sv := e.load(s.base).(Vec)
	dv := append(Vec{}, e.load(dst.base).(Vec)...)
	for i := uint64(0); i < n; i++ {
		dv[do+i] = sv[so+i]
	}
	e.store(dst.base, dv)
	return tb.BVu(n, 64)
}

func (e *Exec) appendOp(s Slice, more Value, c *ssa.CallCommon) Value {
	tb := e.tb
	marr, moff, mlen, mmax, isBytes := e.bytesOf(more)
	var elemT types.Type
	if c != nil {
		elemT = c.Args[0].Type().Underlying().(*types.Slice).Elem()
	}
	if isBytes && (elemT == nil || isByte(elemT)) {
		if mmax == 0 {
			return s
		}
		nl := tb.Bin(OpAdd, s.len, mlen)
		e.workCopy = tb.Bin(OpAdd, e.workCopy, mlen)
		fits := tb.Cmp(OpUle, nl, s.cap)
		if s.base.obj != nil && e.branch(fits) {
			darr := e.load(s.base).(BArr)
			e.storeArr(s.base, e.blend(darr.t, tb.Bin(OpAdd, s.off, s.len), marr, moff, mlen, mmax))
			return Slice{base: s.base, off: s.off, len: nl, cap: s.cap, max: s.max}
		}
		// reallocation
		e.workAlloc = tb.Bin(OpAdd, e.workAlloc, nl)
		e.workCopy = tb.Bin(OpAdd, e.workCopy, s.len)
		if s.base.obj == nil || s.max == 0 {
			o := e.newObj(BArr{marr, -1}, nil, "append")
			return Slice{base: Ptr{obj: o}, off: moff, len: mlen, cap: mlen, max: mmax}
		}
		darr := e.load(s.base).(BArr)
		na := e.blend(darr.t, tb.Bin(OpAdd, s.off, s.len), marr, moff, mlen, mmax)
		o := e.newObj(BArr{na, -1}, nil, "append")
		return Slice{base: Ptr{obj: o}, off: s.off, len: nl, cap: nl, max: s.max + mmax}
	}
	m := more.(Slice)
	ml := e.concretize(m.len, "append src len")
	if ml == 0 {
		return s
	}
	sl := e.concretize(s.len, "append dst len")
	sc := e.concretize(s.cap, "append dst cap")
	mo := e.concretize(m.off, "append src off")
	mv := e.load(m.base).(Vec)
	if s.base.obj != nil && sl+ml <= sc {
		so := e.concretize(s.off, "append dst off")
		dv := append(Vec{}, e.load(s.base).(Vec)...)
		for i := uint64(0); i < ml; i++ {
			dv[so+sl+i] = mv[mo+i]
		}
		e.store(s.base, dv)
		return Slice{base: s.base, off: s.off, len: tb.BVu(sl+ml, 64), cap: s.cap, max: s.max}
	}
	// grow: double like Go so that in-place appends behave alike
	nc := sc * 2
	if nc < sl+ml {
		nc = sl + ml
	}
	nv := make(Vec, nc)
	if sl > 0 {
		so := e.concretize(s.off, "append dst off")
		copy(nv, e.load(s.base).(Vec)[so:so+sl])
	}
	for i := uint64(0); i < ml; i++ {
		nv[sl+i] = mv[mo+i]
	}
	var z Value
	if elemT != nil {
		z = e.zero(elemT)
	}
	for i := sl + ml; i < nc; i++ {
		nv[i] = z
	}
	o := e.newObj(nv, nil, "append")
	return Slice{base: Ptr{obj: o}, off: tb.BVu(0, 64), len: tb.BVu(sl+ml, 64), cap: tb.BVu(nc, 64), max: int(nc)}
}

// lenientCall runs an initialiser call of a dependency package; if the callee is
// not encodable the initialised variable keeps its zero value and the skip is
// recorded (listed in the evidence as part of the trusted base).
func (e *Exec) lenientCall(fr *frame, x *ssa.Call) (ret Value) {
	depth := len(e.stack)
	defer func() {
		if r := recover(); r != nil {
			switch r.(type) {
			case *unsupportedErr, *goPanic:
				e.stack = e.stack[:depth]
				e.initSkips = append(e.initSkips, fmt.Sprintf("%s: %s", fr.fn.Pkg.Pkg.Path(), x.Call.Value.String()))
				if x.Type() != nil {
					if tu, ok := x.Type().(*types.Tuple); ok && tu.Len() == 0 {
						ret = nil
					} else {
						ret = e.zero(x.Type())
					}
				}
			default:
				panic(r)
			}
		}
	}()
	return e.doCall(fr, &x.Call, x)
}
