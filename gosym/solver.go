package main

// One incremental SMT solver process per worker, fed over a pipe.

import (
	"bufio"
	"fmt"
	"io"
	"math/big"
	"os"
	"os/exec"
	"strings"
	"time"
)

var slowLog = os.Getenv("GOSYM_SLOW") != ""

type Verdict int

const (
	Unsat Verdict = iota
	Sat
	Unknown
)

func (v Verdict) String() string { return [...]string{"unsat", "sat", "unknown"}[v] }

type Solver struct {
	kind    string
	cmd     *exec.Cmd
	in      io.WriteCloser
	out     *bufio.Reader
	tb      *TermBank
	defined map[int]bool
	ufDecl  map[string]bool
	level   int
	seq     int
	// stats
	nSat, nUnsat, nUnknown int
	solveTime              time.Duration
	errors                 []string
	timeoutMs              int
	logw                   io.Writer
	buf                    strings.Builder
	decls                  []string  // every global declaration/definition, in order
	stack                  [][]*Term // assertions per push level
	quickMs                int       // incremental attempt budget before escalating
	nEscalated             int
}

func NewSolver(kind string, tb *TermBank, timeoutMs int) (*Solver, error) {
	var cmd *exec.Cmd
	switch kind {
	case "z3":
		cmd = exec.Command("z3", "-in")
	case "z3-new":
		cmd = exec.Command("z3-new", "-in")
	case "cvc5":
		cmd = exec.Command("cvc5", "--incremental", "--lang", "smt2", "--produce-models", "--global-declarations",
			fmt.Sprintf("--tlimit-per=%d", timeoutMs))
	default:
		return nil, fmt.Errorf("unknown solver %s", kind)
	}
	in, err := cmd.StdinPipe()
	if err != nil {
		return nil, err
	}
	outp, err := cmd.StdoutPipe()
	if err != nil {
		return nil, err
	}
	cmd.Stderr = cmd.Stdout
	if err := cmd.Start(); err != nil {
		return nil, err
	}
	s := &Solver{kind: kind, cmd: cmd, in: in, out: bufio.NewReaderSize(outp, 1<<20), tb: tb,
		defined: map[int]bool{}, ufDecl: map[string]bool{}, timeoutMs: timeoutMs, stack: [][]*Term{nil}}
	s.quickMs = 4000
	if timeoutMs < s.quickMs {
		s.quickMs = timeoutMs
	}
	if kind == "cvc5" {
		s.send("(set-logic ALL)")
	} else {
		s.send("(set-option :global-declarations true)")
		s.send("(set-option :produce-models true)")
		s.send(fmt.Sprintf("(set-option :timeout %d)", s.quickMs))
	}
	s.sync()
	return s, nil
}

func (s *Solver) Close() {
	if s.cmd != nil {
		s.in.Close()
		s.cmd.Process.Kill()
		s.cmd.Wait()
		s.cmd = nil
	}
}

func (s *Solver) send(line string) {
	s.buf.WriteString(line)
	s.buf.WriteByte('\n')
}

func (s *Solver) flush() {
	if s.buf.Len() == 0 {
		return
	}
	if s.logw != nil {
		io.WriteString(s.logw, s.buf.String())
	}
	io.WriteString(s.in, s.buf.String())
	s.buf.Reset()
}

// sync flushes and reads all output up to an echo marker; returns the lines.
func (s *Solver) sync() []string {
	s.seq++
	marker := fmt.Sprintf("<<sync-%d>>", s.seq)
	s.send(fmt.Sprintf("(echo \"%s\")", marker))
	s.flush()
	var lines []string
	for {
		l, err := s.out.ReadString('\n')
		l = strings.TrimRight(l, "\r\n")
		if strings.Contains(l, marker) {
			break
		}
		if err != nil {
			s.errors = append(s.errors, "solver died: "+err.Error())
			lines = append(lines, "(error \"solver died\")")
			break
		}
		if l == "" {
			continue
		}
		if strings.HasPrefix(l, "(error") {
			s.errors = append(s.errors, l)
		}
		lines = append(lines, l)
	}
	return lines
}

func (s *Solver) define(t *Term) {
	if s.defined[t.id] {
		return
	}
	// iterative post-order
	type fr struct {
		t *Term
		i int
	}
	st := []fr{{t, 0}}
	for len(st) > 0 {
		f := &st[len(st)-1]
		if s.defined[f.t.id] {
			st = st[:len(st)-1]
			continue
		}
		if f.i < len(f.t.args) {
			c := f.t.args[f.i]
			f.i++
			if !s.defined[c.id] {
				st = append(st, fr{c, 0})
			}
			continue
		}
		x := f.t
		st = st[:len(st)-1]
		s.defined[x.id] = true
		switch x.op {
		case OpConst, OpConstArr:
		case OpVar:
			s.decl(fmt.Sprintf("(declare-fun %s () %s)", smtName(x.name), sortStr(x.w)))
		default:
			if x.op == OpUF && !s.ufDecl[x.name] {
				s.ufDecl[x.name] = true
				s.decl(fmt.Sprintf("(declare-fun %s %s)", smtName(x.name), s.tb.ufs[x.name]))
			}
			if !(x.op == OpUF && len(x.args) == 0) {
				s.decl(fmt.Sprintf("(define-fun t%d () %s %s)", x.id, sortStr(x.w), x.body()))
			} else {
				// nullary UF: behaves as a variable; alias
				s.decl(fmt.Sprintf("(define-fun t%d () %s %s)", x.id, sortStr(x.w), smtName(x.name)))
			}
		}
	}
}

func (s *Solver) decl(line string) {
	s.decls = append(s.decls, line)
	s.send(line)
}

func (s *Solver) Push() {
	s.send("(push 1)")
	s.level++
	s.stack = append(s.stack, nil)
}

func (s *Solver) Pop(n int) {
	if n <= 0 {
		return
	}
	s.send(fmt.Sprintf("(pop %d)", n))
	s.level -= n
	s.stack = s.stack[:len(s.stack)-n]
}

func (s *Solver) Assert(t *Term) {
	s.define(t)
	s.send(fmt.Sprintf("(assert %s)", t.ref()))
	s.stack[len(s.stack)-1] = append(s.stack[len(s.stack)-1], t)
}

// Check decides the current assertion stack plus extra (not retained).
func (s *Solver) Check(extra ...*Term) Verdict {
	v, _ := s.CheckModel(nil, extra...)
	return v
}

// CheckModel is Check and, on sat, fetches the values of want.
func (s *Solver) CheckModel(want []*Term, extra ...*Term) (Verdict, map[*Term]*big.Int) {
	t0 := time.Now()
	defer func() {
		d := time.Since(t0)
		s.solveTime += d
		if slowLog && d > 2*time.Second {
			fmt.Fprintf(os.Stderr, "SLOW query %v (extra=%d want=%d level=%d)\n", d, len(extra), len(want), s.level)
		}
	}()
	for _, x := range extra {
		s.define(x)
	}
	for _, w := range want {
		s.define(w)
	}
	if len(extra) > 0 {
		s.send("(push 1)")
		for _, x := range extra {
			s.send(fmt.Sprintf("(assert %s)", x.ref()))
		}
	}
	nerr := len(s.errors)
	s.send("(check-sat)")
	lines := s.sync()
	verdict := Unknown
	for _, l := range lines {
		switch strings.TrimSpace(l) {
		case "sat":
			verdict = Sat
		case "unsat":
			verdict = Unsat
		case "unknown", "timeout":
			verdict = Unknown
		}
	}
	if len(s.errors) > nerr {
		verdict = Unknown
	}
	var model map[*Term]*big.Int
	if verdict == Sat && len(want) > 0 {
		model = s.getValues(want)
	}
	if len(extra) > 0 {
		s.send("(pop 1)")
	}
	if verdict == Unknown && len(s.errors) == nerr {
		verdict, model = s.escalate(want, extra)
	}
	switch verdict {
	case Sat:
		s.nSat++
	case Unsat:
		s.nUnsat++
	default:
		s.nUnknown++
	}
	return verdict, model
}

func (s *Solver) getValues(want []*Term) map[*Term]*big.Int {
	model := map[*Term]*big.Int{}
	const chunk = 200
	for i := 0; i < len(want); i += chunk {
		j := i + chunk
		if j > len(want) {
			j = len(want)
		}
		var sb strings.Builder
		sb.WriteString("(get-value (")
		for _, w := range want[i:j] {
			sb.WriteString(w.ref() + " ")
		}
		sb.WriteString("))")
		s.send(sb.String())
		lines := s.sync()
		txt := strings.Join(lines, " ")
		vals := parseValues(txt)
		if len(vals) != j-i {
			s.errors = append(s.errors, fmt.Sprintf("get-value parse: got %d want %d: %.200s", len(vals), j-i, txt))
			continue
		}
		for k, w := range want[i:j] {
			model[w] = vals[k]
		}
	}
	return model
}

// parseValues extracts the literal values from ((name val) (name val) ...).
func parseValues(txt string) []*big.Int {
	var res []*big.Int
	// tokenise
	toks := []string{}
	cur := strings.Builder{}
	inBar := false
	for _, r := range txt {
		switch {
		case inBar:
			cur.WriteRune(r)
			if r == '|' {
				inBar = false
			}
		case r == '|':
			inBar = true
			cur.WriteRune(r)
		case r == '(' || r == ')':
			if cur.Len() > 0 {
				toks = append(toks, cur.String())
				cur.Reset()
			}
			toks = append(toks, string(r))
		case r == ' ' || r == '\t' || r == '\n':
			if cur.Len() > 0 {
				toks = append(toks, cur.String())
				cur.Reset()
			}
		default:
			cur.WriteRune(r)
		}
	}
	// structure: ( (k v) (k v) ... ), where k may itself be parenthesised
	depth := 0
	var pairStart int
	for i, t := range toks {
		if t == "(" {
			depth++
			if depth == 2 {
				pairStart = i
			}
		} else if t == ")" {
			if depth == 2 {
				// value is the last token(s) before this: handle #x, #b, true/false, (_ bvN w)
				v := toks[i-1]
				if v == ")" {
					// (_ bvN w)
					if i-4 >= pairStart && toks[i-4] == "_" {
						n := strings.TrimPrefix(toks[i-3], "bv")
						b, _ := new(big.Int).SetString(n, 10)
						res = append(res, b)
					} else {
						res = append(res, nil)
					}
				} else {
					res = append(res, parseLit(v))
				}
			}
			depth--
		}
	}
	return res
}

func parseLit(v string) *big.Int {
	switch {
	case v == "true":
		return big.NewInt(1)
	case v == "false":
		return big.NewInt(0)
	case strings.HasPrefix(v, "#x"):
		b, _ := new(big.Int).SetString(v[2:], 16)
		return b
	case strings.HasPrefix(v, "#b"):
		b, _ := new(big.Int).SetString(v[2:], 2)
		return b
	}
	return nil
}

// escalate re-decides a query the incremental solver gave up on, in fresh
// non-incremental solver processes (which use the bit-blasting tactics).
func (s *Solver) escalate(want []*Term, extra []*Term) (Verdict, map[*Term]*big.Int) {
	s.nEscalated++
	var sb strings.Builder
	for _, d := range s.decls {
		sb.WriteString(d)
		sb.WriteByte('\n')
	}
	for _, lvl := range s.stack {
		for _, t := range lvl {
			sb.WriteString("(assert " + t.ref() + ")\n")
		}
	}
	for _, t := range extra {
		sb.WriteString("(assert " + t.ref() + ")\n")
	}
	sb.WriteString("(check-sat)\n")
	if len(want) > 0 {
		sb.WriteString("(get-value (")
		for _, w := range want {
			sb.WriteString(w.ref() + " ")
		}
		sb.WriteString("))\n")
	}
	body := sb.String()
	type attempt struct {
		name string
		args []string
		pre  string
	}
	secs := s.timeoutMs / 1000
	if secs < 1 {
		secs = 1
	}
	attempts := []attempt{
		{"z3", []string{"-in", fmt.Sprintf("-T:%d", secs)}, "(set-option :produce-models true)\n"},
		{"z3-new", []string{"-in", fmt.Sprintf("-T:%d", secs)}, "(set-option :produce-models true)\n"},
		{"cvc5", []string{"--lang", "smt2", "--produce-models", fmt.Sprintf("--tlimit=%d", s.timeoutMs)}, "(set-logic ALL)\n"},
	}
	for _, a := range attempts {
		cmd := exec.Command(a.name, a.args...)
		cmd.Stdin = strings.NewReader(a.pre + body)
		out, _ := cmd.CombinedOutput()
		txt := string(out)
		if strings.Contains(txt, "(error") && !strings.Contains(txt, "model is not available") {
			continue
		}
		lines := strings.Split(txt, "\n")
		first := ""
		for _, l := range lines {
			if t := strings.TrimSpace(l); t != "" {
				first = t
				break
			}
		}
		switch first {
		case "unsat":
			return Unsat, nil
		case "sat":
			var model map[*Term]*big.Int
			if len(want) > 0 {
				rest := strings.Join(lines[1:], " ")
				vals := parseValues(rest)
				if len(vals) != len(want) {
					continue
				}
				model = map[*Term]*big.Int{}
				for k, w := range want {
					model[w] = vals[k]
				}
			}
			return Sat, model
		}
	}
	return Unknown, nil
}
