package main

// Symbolic executor for go/ssa functions.  Exploration is depth-first by
// re-execution: a path is identified by its sequence of branch decisions; each
// run follows a decision prefix and extends it, asking the solver which sides of
// a new symbolic branch are feasible.

import (
	"fmt"
	"go/constant"
	"go/token"
	"go/types"
	"math/big"
	"os"
	"sort"
	"strings"

	"golang.org/x/tools/go/ssa"
)

type decision struct {
	val   bool
	both  bool     // the other side is feasible and not yet explored
	need  bool     // must be asserted to the solver (not implied by the path condition)
	guess *big.Int // value tried by a concretisation at this decision
}

type goPanic struct {
	msg   string
	val   Value
	site  string
	stack []string
}

type pathEnd struct {
	kind string // infeasible | oob | unwind | unsupported | inconclusive | budget | stop
	msg  string
}

type deferred struct {
	fn   Value
	args []Value
	inv  *types.Func // interface method for invoke-mode defers
}

type frame struct {
	fn        *ssa.Function
	locals    map[ssa.Value]Value
	defers    []deferred
	block     *ssa.BasicBlock
	prev      *ssa.BasicBlock
	symCount  map[ssa.Instruction]int
	result    Value
	panicking *goPanic
	curInstr  ssa.Instruction
}

type inputRec struct {
	Name string
	Kind string // u64,u8,bool,u256,bytes,addr,hash,choice
	term *Term  // scalar term (or length term for bytes)
	arr  *Term  // byte content (bytes)
	n    int    // number of bytes to fetch (fixed-size) or max (bytes)
}

type ufRec struct {
	name string
	args []*Term
	res  *Term
}

type Violation struct {
	Harness string
	Kind    string // assert | panic | oob | unwind | shared-write | order
	Tag     string
	Site    string
	Known   string            // known-finding id if inside a declared region
	Model   map[string]string // input name -> hex
	Inputs  []ReplayInput
	UFs     []ReplayUF
	Stack   []string
}

type ReplayInput struct {
	Name string `json:"name"`
	Kind string `json:"kind"`
	Hex  string `json:"hex"`
	Len  int    `json:"len,omitempty"`
}
type ReplayUF struct {
	Name string   `json:"name"`
	Args []string `json:"args"`
	Res  string   `json:"res"`
}

type PathResult struct {
	Status  string // ok | panic | infeasible | oob | unwind | unsupported | inconclusive | budget
	Msg     string
	Reached []string
	Obs     []Observation
	PC      *Term
	Steps   int
}

type Observation struct {
	Tag  string
	Vals []Value
}

type Exec struct {
	prog *ssa.Program
	eng  *Engine
	tb   *TermBank
	sol  *Solver
	h    *Harness

	decisions []decision
	pos       int
	pcond     []*Term
	known     map[int]bool

	objSeq       int
	globals      map[*ssa.Global]*Obj
	inInit       bool
	initObjs     []*Obj
	initSnap     map[*Obj]Value
	dirty        []*Obj
	initDone     map[*ssa.Package]bool
	sharedWrites map[string]string

	varSeq      map[string]int
	inputs      []inputRec
	ufs         []ufRec
	stack       []*frame
	steps       int
	reached     map[string]bool
	obs         []Observation
	knownRegion string
	strCache    map[string]*Term

	workAlloc, workCopy *Term

	// accumulated over all paths
	violations   []Violation
	paths        []PathResult
	nInstr       int
	allReached   map[string]int
	vioSeen      map[string]bool
	recoverSlot  **goPanic
	guessCache   map[string]*Term
	nAsserts     int
	nWitness     int
	floor        int
	pathViolated bool
	inOOBHook    bool
	strictInit   map[*ssa.Package]bool
	initSkips    []string
	funcsSeen    map[string]bool
	atomicAccess map[*Obj]bool
}

func (e *Exec) curSite() string {
	if len(e.stack) == 0 {
		return "?"
	}
	fr := e.stack[len(e.stack)-1]
	return e.siteOf(fr)
}

func (e *Exec) siteOf(fr *frame) string {
	pos := token.NoPos
	if fr.curInstr != nil {
		pos = fr.curInstr.Pos()
	}
	if pos == token.NoPos {
		// search backwards in block for a position
		if fr.curInstr != nil {
			b := fr.curInstr.Block()
			for _, in := range b.Instrs {
				if in.Pos() != token.NoPos {
					pos = in.Pos()
				}
				if in == fr.curInstr {
					break
				}
			}
		}
	}
	if pos == token.NoPos {
		return fr.fn.String()
	}
	p := e.prog.Fset.Position(pos)
	return fmt.Sprintf("%s:%d (%s)", shortFile(p.Filename), p.Line, fr.fn.Name())
}

func shortFile(f string) string {
	for _, pre := range []string{"/repo/", "/root/go/pkg/mod/", "/usr/local/go/src/"} {
		if strings.HasPrefix(f, pre) {
			return f[len(pre):]
		}
	}
	return f
}

func (e *Exec) stackTrace() []string {
	var s []string
	for i := len(e.stack) - 1; i >= 0 && len(s) < 12; i-- {
		s = append(s, e.siteOf(e.stack[i]))
	}
	return s
}

func (e *Exec) goPanic(msg string) {
	panic(&goPanic{msg: msg, site: e.curSite(), stack: e.stackTrace()})
}

func (e *Exec) end(kind, msg string) {
	panic(&pathEnd{kind, msg})
}

// ---------------------------------------------------------------- branching

func (e *Exec) assertPC(c *Term) {
	e.pcond = append(e.pcond, c)
	e.known[c.id] = true
	e.sol.Assert(c)
}

// branch decides a symbolic condition, forking the exploration when both sides
// are feasible.
func (e *Exec) branch(c *Term) bool { return e.decide(c, nil) }

// decide is branch; with a non-nil guess (value concretisation) the decision is
// always recorded, so that a replay finds the guess at the same position.
func (e *Exec) decide(c *Term, guess *big.Int) bool {
	if guess == nil {
		if c.IsConst() {
			return c.IsTrue()
		}
		if e.known[c.id] {
			return true
		}
	}
	if e.inInit {
		panic(unsupported("symbolic branch during package init"))
	}
	nc := e.tb.BNot(c)
	if guess == nil && e.known[nc.id] {
		return false
	}
	if e.pos < len(e.decisions) {
		d := e.decisions[e.pos]
		e.pos++
		lit := c
		if !d.val {
			lit = nc
		}
		if lit.IsConst() {
			return d.val
		}
		if d.need {
			e.assertPC(lit)
		} else {
			e.known[lit.id] = true
		}
		return d.val
	}
	// new decision
	var d decision
	switch {
	case c.IsConst():
		d = decision{val: c.IsTrue()}
	case e.known[c.id]:
		d = decision{val: true}
	case e.known[nc.id]:
		d = decision{val: false}
	default:
		vt := e.sol.Check(c)
		if vt == Unknown {
			e.end("inconclusive", "solver unknown on branch at "+e.curSite())
		}
		if vt == Unsat {
			d = decision{val: false}
		} else {
			vf := e.sol.Check(nc)
			if vf == Unknown {
				e.end("inconclusive", "solver unknown on branch at "+e.curSite())
			}
			if vf == Unsat {
				d = decision{val: true}
			} else {
				d = decision{val: true, both: true, need: true}
			}
		}
	}
	d.guess = guess
	e.decisions = append(e.decisions, d)
	e.pos++
	lit := c
	if !d.val {
		lit = nc
	}
	if lit.IsConst() {
		return d.val
	}
	if d.need {
		e.assertPC(lit)
	} else {
		e.known[lit.id] = true
	}
	return d.val
}

// loopGuard bounds the number of symbolic decisions taken at one instruction
// within one frame activation.
func (e *Exec) loopGuard(fr *frame, in ssa.Instruction) {
	if fr.symCount == nil {
		fr.symCount = map[ssa.Instruction]int{}
	}
	fr.symCount[in]++
	if fr.symCount[in] > e.h.Unroll {
		e.handleLimit("unwind", fmt.Sprintf("loop bound %d exceeded at %s", e.h.Unroll, e.curSite()))
	}
}

// handleLimit is called when a bound of the encoding is hit on a feasible path.
func (e *Exec) handleLimit(kind, msg string) {
	mode := e.h.OnLimit[kind]
	if strings.HasPrefix(mode, "finding:") {
		// "finding:<property>:<known-finding id>": hitting this bound is itself the violation of
		// <property> (work not bounded by gas); it is reported under that property only
		parts := strings.SplitN(mode, ":", 3)
		e.knownRegion = parts[2]
		e.reportViolation(kind, parts[1]+": "+msg, e.curSite(), nil)
		e.end("assumed-"+kind, msg)
	}
	switch mode {
	case "violation":
		e.reportViolation(kind, kind+": "+msg, e.curSite(), nil)
		e.end(kind, msg)
	case "assume":
		e.end("assumed-"+kind, msg)
	default:
		e.end(kind, msg)
	}
}

// concretize forks over the feasible values of t.
func (e *Exec) concretize(t *Term, what string) uint64 {
	for n := 0; ; n++ {
		if v, ok := t.ConstU64(); ok {
			return v
		}
		if t.IsConst() {
			panic(unsupported("concretize wide constant"))
		}
		if n > 300 {
			panic(unsupported("concretize: too many values for " + what))
		}
		var guess *Term
		if e.pos < len(e.decisions) {
			g := e.decisions[e.pos].guess
			if g == nil {
				panic(unsupported("internal: replay diverged at a concretisation (" + what + ")"))
			}
			guess = e.tb.BV(g, t.w)
		} else {
			v, m := e.sol.CheckModel([]*Term{t})
			if v != Sat || m[t] == nil {
				e.end("inconclusive", "concretize "+what)
			}
			guess = e.tb.BV(m[t], t.w)
		}
		if e.decide(e.tb.Eq(t, guess), guess.val) {
			return guess.val.Uint64()
		}
	}
}

// fewValues reports whether t has at most k feasible values under the path
// condition.  The answer is recorded as a (non-forking) decision so that replays
// and other workers take the same course.
func (e *Exec) fewValues(t *Term, k int) bool {
	if t.IsConst() {
		return true
	}
	if e.pos < len(e.decisions) {
		d := e.decisions[e.pos]
		e.pos++
		return d.val
	}
	few := true
	var block []*Term
	for i := 0; i <= k; i++ {
		v, m := e.sol.CheckModel([]*Term{t}, block...)
		if v == Unsat {
			break
		}
		if v != Sat || m[t] == nil {
			e.end("inconclusive", "enumerating values at "+e.curSite())
		}
		if i == k {
			few = false
			break
		}
		block = append(block, e.tb.BNot(e.tb.Eq(t, e.tb.BV(m[t], t.w))))
	}
	e.decisions = append(e.decisions, decision{val: few})
	e.pos++
	return few
}

// tightBound returns the smallest of a few candidate bounds that the path
// condition implies for t (at most limit); recorded like a decision.
func (e *Exec) tightBound(t *Term, limit int) int {
	if e.pos < len(e.decisions) {
		d := e.decisions[e.pos]
		e.pos++
		if d.guess != nil {
			return int(d.guess.Int64())
		}
		return limit
	}
	res := limit
	for _, b := range []int{8, 32, 64, 96, 160, 256, 512} {
		if b >= limit {
			break
		}
		if e.sol.Check(e.tb.Cmp(OpUlt, e.tb.BVu(uint64(b), 64), t)) == Unsat {
			res = b
			break
		}
	}
	e.decisions = append(e.decisions, decision{val: true, guess: big.NewInt(int64(res))})
	e.pos++
	return res
}

func (e *Exec) fresh(name string, w int) *Term {
	e.varSeq[name]++
	n := e.varSeq[name]
	if n > 1 {
		name = fmt.Sprintf("%s#%d", name, n)
	}
	return e.tb.Var(name, w)
}

// ---------------------------------------------------------------- violations

func (e *Exec) reportViolation(kind, tag, site string, negCond *Term) {
	key := kind + "|" + tag + "|" + site + "|" + e.knownRegion
	// fetch a model
	var want []*Term
	for _, in := range e.inputs {
		if in.term != nil {
			want = append(want, in.term)
		}
	}
	var extra []*Term
	if negCond != nil {
		extra = append(extra, negCond)
	}
	verdict, model := e.sol.CheckModel(want, extra...)
	if verdict != Sat {
		if verdict == Unknown {
			e.end("inconclusive", "model for violation "+tag)
		}
		return
	}
	if e.vioSeen[key] {
		return
	}
	e.vioSeen[key] = true
	v := Violation{Harness: e.h.Name, Kind: kind, Tag: tag, Site: site, Known: e.knownRegion, Model: map[string]string{}, Stack: e.stackTrace()}
	// second phase: bytes content, with lengths fixed to the model values
	var fix []*Term
	fix = append(fix, extra...)
	var want2 []*Term
	type pending struct {
		idx   int
		sel   []*Term
		nbyte int
	}
	var pend []pending
	for i, in := range e.inputs {
		if in.arr == nil {
			continue
		}
		n := in.n
		if in.term != nil {
			lv := model[in.term]
			if lv != nil {
				fix = append(fix, e.tb.Eq(in.term, e.tb.Const(lv, in.term.w)))
				if lv.IsUint64() && int(lv.Uint64()) < n {
					n = int(lv.Uint64())
				}
			}
		}
		p := pending{idx: i, nbyte: n}
		for k := 0; k < n; k++ {
			s := e.tb.Select(in.arr, e.tb.BVu(uint64(k), 64))
			p.sel = append(p.sel, s)
			want2 = append(want2, s)
		}
		pend = append(pend, p)
	}
	for _, in := range e.inputs {
		if in.term != nil && in.arr == nil {
			if mv := model[in.term]; mv != nil {
				fix = append(fix, e.tb.Eq(in.term, e.tb.Const(mv, in.term.w)))
			}
		}
	}
	for _, u := range e.ufs {
		want2 = append(want2, u.res)
		want2 = append(want2, u.args...)
	}
	var model2 map[*Term]*big.Int
	if len(want2) > 0 {
		var v2 Verdict
		v2, model2 = e.sol.CheckModel(want2, fix...)
		if v2 != Sat {
			model2 = nil
			if slowLog {
				fmt.Fprintf(os.Stderr, "model phase 2 for %s: %v\n", tag, v2)
			}
		}
	}
	get := func(t *Term) *big.Int {
		if t.IsConst() {
			return t.val
		}
		if model2 != nil {
			if x, ok := model2[t]; ok && x != nil {
				return x
			}
		}
		if x, ok := model[t]; ok && x != nil {
			return x
		}
		return new(big.Int)
	}
	pi := 0
	for i, in := range e.inputs {
		ri := ReplayInput{Name: in.Name, Kind: in.Kind}
		if in.arr != nil {
			p := pend[pi]
			pi++
			_ = i
			bs := make([]byte, p.nbyte)
			for k, s := range p.sel {
				bs[k] = byte(get(s).Uint64())
			}
			ri.Hex = fmt.Sprintf("%x", bs)
			ri.Len = p.nbyte
		} else if in.term != nil {
			ri.Hex = get(in.term).Text(16)
		}
		v.Inputs = append(v.Inputs, ri)
		v.Model[in.Name] = ri.Hex
	}
	for _, u := range e.ufs {
		ru := ReplayUF{Name: u.name, Res: get(u.res).Text(16)}
		for _, a := range u.args {
			ru.Args = append(ru.Args, get(a).Text(16))
		}
		v.UFs = append(v.UFs, ru)
	}
	e.violations = append(e.violations, v)
}

// ---------------------------------------------------------------- paths

func (e *Exec) resetPath() {
	for _, o := range e.dirty {
		o.val = e.initSnap[o]
		o.wrote = false
	}
	e.dirty = e.dirty[:0]
	e.pos = 0
	e.pcond = e.pcond[:0]
	e.known = map[int]bool{}
	e.varSeq = map[string]int{}
	e.inputs = e.inputs[:0]
	e.ufs = e.ufs[:0]
	e.stack = e.stack[:0]
	e.steps = 0
	e.reached = map[string]bool{}
	e.obs = nil
	e.pathViolated = false
	e.inOOBHook = false
	e.knownRegion = ""
	e.objSeq = 1 << 20
	e.workAlloc = e.tb.BVu(0, 64)
	e.workCopy = e.tb.BVu(0, 64)
}

// runPath executes the harness once along the current decision prefix.
func (e *Exec) runPath(fn *ssa.Function, args []Value) (res PathResult) {
	e.resetPath()
	e.sol.Push()
	defer func() {
		defer e.sol.Pop(1)
		res.Steps = e.steps
		e.nInstr += e.steps
		for t := range e.reached {
			res.Reached = append(res.Reached, t)
			e.allReached[t]++
		}
		sort.Strings(res.Reached)
		res.Obs = e.obs
		pc := e.tb.True()
		for _, c := range e.pcond {
			pc = e.tb.BAnd(pc, c)
		}
		res.PC = pc
		if r := recover(); r != nil {
			switch x := r.(type) {
			case *pathEnd:
				res.Status = x.kind
				res.Msg = x.msg
			case *goPanic:
				res.Status = "panic"
				res.Msg = x.msg + " at " + x.site
				if e.pathViolated && strings.Contains(x.site, "zz_verif_") {
					// the harness itself tripped after one of its assertions had already failed
					res.Status = "stop"
				} else if !e.h.ExpectPanic {
					e.stack = e.stack[:0]
					e.reportViolationStack("panic", "no-panic: "+x.msg, x.site, x.stack)
				}
			case *unsupportedErr:
				res.Status = "unsupported"
				res.Msg = x.msg + " at " + e.curSite()
			default:
				panic(r)
			}
		}
	}()
	e.callFn(fn, args)
	res.Status = "ok"
	// a few completed paths are turned into concrete witnesses that the driver
	// replays natively: the real build must take the same path (validates the encoding)
	if e.nWitness < 3 && len(e.reached) > 0 && !e.pathViolated {
		e.nWitness++
		n := len(e.violations)
		e.knownRegion = ""
		e.reportViolation("witness", fmt.Sprintf("witness-%d", e.nWitness), "", nil)
		if len(e.violations) > n {
			w := &e.violations[len(e.violations)-1]
			for t := range e.reached {
				w.Stack = append(w.Stack, t)
			}
			sort.Strings(w.Stack)
		}
	}
	return
}

func (e *Exec) reportViolationStack(kind, tag, site string, stack []string) {
	n := len(e.violations)
	e.reportViolation(kind, tag, site, nil)
	if len(e.violations) > n {
		e.violations[len(e.violations)-1].Stack = stack
	}
}

// nextPrefix flips the deepest unexplored decision at or above the floor of this
// work item; false when the subtree is exhausted.
func (e *Exec) nextPrefix() bool {
	for i := len(e.decisions) - 1; i >= e.floor; i-- {
		if e.decisions[i].both {
			e.decisions = e.decisions[:i+1]
			e.decisions[i] = decision{val: !e.decisions[i].val, need: true, guess: e.decisions[i].guess}
			return true
		}
	}
	return false
}

// donate hands the shallowest unexplored alternative (the largest subtree) to
// another worker; nil when there is none.
func (e *Exec) donate() []decision {
	for i := e.floor; i < len(e.decisions); i++ {
		if e.decisions[i].both {
			p := make([]decision, i+1)
			copy(p, e.decisions[:i+1])
			p[i] = decision{val: !p[i].val, need: true, guess: p[i].guess}
			e.decisions[i].both = false
			return p
		}
	}
	return nil
}

// ---------------------------------------------------------------- calls

// realFor: the harness asked for the real body of this summarised function.
func (e *Exec) realFor(fn *ssa.Function) bool {
	if len(e.h.Real) == 0 || fn.Blocks == nil {
		return false
	}
	name := fn.String()
	for _, r := range e.h.Real {
		if strings.Contains(name, r) {
			return true
		}
	}
	return false
}

func (e *Exec) callFn(fn *ssa.Function, args []Value) Value {
	if h := e.eng.intrinsic(fn); h != nil && !e.realFor(fn) {
		return h(e, fn, args)
	}
	if r := e.eng.redirect(fn, e.h); r != nil {
		fn = r
	}
	if fn.Blocks == nil {
		panic(unsupported("call of function without body: " + fn.String()))
	}
	if e.funcsSeen != nil && !e.inInit {
		e.funcsSeen[fn.String()] = true
	}
	if len(e.stack) > 400 {
		panic(unsupported("call depth"))
	}
	fr := &frame{fn: fn, locals: make(map[ssa.Value]Value, 32)}
	for i, p := range fn.Params {
		fr.locals[p] = args[i]
	}
	e.stack = append(e.stack, fr)
	depth := len(e.stack)
	ret := e.runFrame(fr, depth)
	e.stack = e.stack[:depth-1]
	return ret
}

func (e *Exec) runFrame(fr *frame, depth int) (ret Value) {
	defer func() {
		if r := recover(); r != nil {
			gp, ok := r.(*goPanic)
			if !ok {
				panic(r)
			}
			e.stack = e.stack[:depth]
			fr.panicking = gp
			e.runDefers(fr)
			if fr.panicking != nil {
				panic(fr.panicking)
			}
			// recovered
			if fr.fn.Recover != nil {
				fr.block = fr.fn.Recover
				fr.prev = nil
				ret = e.runBlocks(fr)
				return
			}
			ret = e.zeroResults(fr.fn)
		}
	}()
	fr.block = fr.fn.Blocks[0]
	return e.runBlocks(fr)
}

func (e *Exec) zeroResults(fn *ssa.Function) Value {
	res := fn.Signature.Results()
	switch res.Len() {
	case 0:
		return nil
	case 1:
		return e.zero(res.At(0).Type())
	}
	return e.zero(res)
}

func (e *Exec) runDefers(fr *frame) {
	for len(fr.defers) > 0 {
		d := fr.defers[len(fr.defers)-1]
		fr.defers = fr.defers[:len(fr.defers)-1]
		saved := e.recoverSlot
		e.recoverSlot = &fr.panicking
		e.callValue(d.fn, d.args, d.inv)
		e.recoverSlot = saved
	}
}

func (e *Exec) callValue(f Value, args []Value, inv *types.Func) Value {
	if inv != nil {
		return e.invoke(f, inv, args)
	}
	fv, _ := f.(*Func)
	if fv == nil {
		e.goPanic("runtime error: invalid memory address or nil pointer dereference (nil func call)")
	}
	if fv.builtin != nil {
		return e.callBuiltin(fv.builtin.Name(), args, nil)
	}
	if len(fv.free) > 0 {
		return e.callClosure(fv, args)
	}
	return e.callFn(fv.fn, args)
}

func (e *Exec) callClosure(fv *Func, args []Value) Value {
	fn := fv.fn
	if h := e.eng.intrinsic(fn); h != nil {
		return h(e, fn, args)
	}
	fr := &frame{fn: fn, locals: make(map[ssa.Value]Value, 32)}
	for i, p := range fn.Params {
		fr.locals[p] = args[i]
	}
	for i, fvv := range fn.FreeVars {
		fr.locals[fvv] = fv.free[i]
	}
	e.stack = append(e.stack, fr)
	depth := len(e.stack)
	ret := e.runFrame(fr, depth)
	e.stack = e.stack[:depth-1]
	return ret
}

func (e *Exec) invoke(recv Value, m *types.Func, args []Value) Value {
	ifc, ok := recv.(Iface)
	if !ok {
		panic(unsupported(fmt.Sprintf("invoke on %T", recv)))
	}
	if ifc.typ == nil {
		e.goPanic("runtime error: invalid memory address or nil pointer dereference (nil interface method call " + m.Name() + ")")
	}
	fn := e.prog.LookupMethod(ifc.typ, m.Pkg(), m.Name())
	if fn == nil {
		panic(unsupported("no method " + m.Name() + " on " + ifc.typ.String()))
	}
	all := append([]Value{ifc.val}, args...)
	return e.callFn(fn, all)
}

// ---------------------------------------------------------------- blocks

func (e *Exec) runBlocks(fr *frame) Value {
	for {
		blk := fr.block
		var next *ssa.BasicBlock
		for _, in := range blk.Instrs {
			fr.curInstr = in
			e.steps++
			if e.steps > e.h.MaxSteps {
				e.end("budget", fmt.Sprintf("step budget %d exhausted", e.h.MaxSteps))
			}
			switch x := in.(type) {
			case *ssa.Phi:
				for i, p := range blk.Preds {
					if p == fr.prev {
						fr.locals[x] = e.get(fr, x.Edges[i])
						break
					}
				}
			case *ssa.If:
				c := e.get(fr, x.Cond).(*Term)
				if !c.IsConst() {
					e.loopGuard(fr, x)
				}
				if e.branch(c) {
					next = blk.Succs[0]
				} else {
					next = blk.Succs[1]
				}
			case *ssa.Jump:
				next = blk.Succs[0]
			case *ssa.Return:
				var ret Value
				switch len(x.Results) {
				case 0:
				case 1:
					ret = e.get(fr, x.Results[0])
				default:
					t := make(Tuple, len(x.Results))
					for i, r := range x.Results {
						t[i] = e.get(fr, r)
					}
					ret = t
				}
				return ret
			case *ssa.Panic:
				v := e.get(fr, x.X)
				msg := "panic: " + describe(v)
				if ifc, ok := v.(Iface); ok {
					if s, ok := ifc.val.(Str); ok {
						msg = "panic: " + e.strConcrete(s)
					} else if ifc.typ != nil {
						msg = "panic: value of type " + ifc.typ.String()
						if txt := e.errorText(ifc); txt != "" {
							msg = "panic: " + txt
						}
					}
				}
				panic(&goPanic{msg: msg, val: v, site: e.curSite(), stack: e.stackTrace()})
			case *ssa.RunDefers:
				e.runDefers(fr)
			default:
				e.exec(fr, in)
			}
		}
		if next == nil {
			panic(unsupported("block without terminator in " + fr.fn.String()))
		}
		fr.prev = blk
		fr.block = next
	}
}

func (e *Exec) errorText(ifc Iface) string {
	if p, ok := ifc.val.(Ptr); ok && p.obj != nil {
		if st, ok := p.obj.val.(Struct); ok && len(st) == 1 {
			if s, ok := st[0].(Str); ok {
				return e.strConcrete(s)
			}
		}
	}
	return ""
}

// strConcrete renders a string value if it is concrete, else a placeholder.
func (e *Exec) strConcrete(s Str) string {
	n, ok := s.len.ConstU64()
	if !ok || n > 4096 {
		return "<symbolic string>"
	}
	b := make([]byte, n)
	for i := range b {
		t := e.tb.Select(s.arr, e.tb.Bin(OpAdd, s.off, e.tb.BVu(uint64(i), 64)))
		v, ok := t.ConstU64()
		if !ok {
			return "<symbolic string>"
		}
		b[i] = byte(v)
	}
	return string(b)
}

func (e *Exec) get(fr *frame, v ssa.Value) Value {
	switch x := v.(type) {
	case *ssa.Const:
		return e.constVal(x)
	case *ssa.Function:
		return &Func{fn: x}
	case *ssa.Global:
		return Ptr{obj: e.globalObj(x)}
	case *ssa.Builtin:
		return &Func{builtin: x}
	}
	r, ok := fr.locals[v]
	if !ok {
		panic(unsupported(fmt.Sprintf("internal: unbound SSA value %s in %s", v.Name(), fr.fn)))
	}
	return r
}

func (e *Exec) strConst(s string) Str {
	tb := e.tb
	arr, ok := e.strCache[s]
	if !ok {
		arr = tb.ConstArr()
		for i := 0; i < len(s); i++ {
			arr = tb.Store(arr, tb.BVu(uint64(i), 64), tb.BVu(uint64(s[i]), 8))
		}
		e.strCache[s] = arr
	}
	return Str{arr: arr, off: tb.BVu(0, 64), len: tb.BVu(uint64(len(s)), 64), max: len(s)}
}

func (e *Exec) constVal(c *ssa.Const) Value {
	t := c.Type()
	if c.Value == nil {
		return e.zero(t)
	}
	switch u := t.Underlying().(type) {
	case *types.Basic:
		switch {
		case u.Info()&types.IsString != 0:
			return e.strConst(constant.StringVal(c.Value))
		case u.Info()&types.IsBoolean != 0:
			return e.tb.Bool(constant.BoolVal(c.Value))
		case u.Info()&types.IsInteger != 0:
			w := basicWidth(u)
			bi, ok := new(big.Int).SetString(c.Value.ExactString(), 10)
			if !ok {
				// could be a rune/char or float-typed const
				if i64, ok2 := constant.Int64Val(constant.ToInt(c.Value)); ok2 {
					bi = big.NewInt(i64)
				} else {
					panic(unsupported("const " + c.Value.ExactString()))
				}
			}
			return e.tb.BV(bi, w)
		case u.Info()&types.IsFloat != 0:
			return e.tb.BVu(0, basicWidth(u))
		}
	}
	panic(unsupported("constant of type " + t.String()))
}

func (e *Exec) globalObj(g *ssa.Global) *Obj {
	if o, ok := e.globals[g]; ok {
		return o
	}
	elem := g.Type().(*types.Pointer).Elem()
	was := e.inInit
	e.inInit = true
	o := e.newObj(e.zero(elem), elem, g.String())
	o.glob = g
	e.globals[g] = o
	defer func() {
		e.inInit = was
		if !was {
			e.snapshotInit()
		}
	}()
	if g.Pkg != nil {
		e.eng.ensureInit(e, g.Pkg)
	}
	return o
}

func (e *Exec) snapshotInit() {
	for _, o := range e.initObjs {
		if _, ok := e.initSnap[o]; !ok {
			e.initSnap[o] = o.val
		}
	}
	// objects initialised later than their creation (globals) need the final value
	for _, o := range e.initObjs {
		if !o.wrote {
			e.initSnap[o] = o.val
		}
	}
}
