#!/bin/sh
# usage: tools/tryseed.sh <patch.diff> <property-id>...
# applies the patch to a scratch worktree of /repo's HEAD (never to /repo itself), runs the quick
# checks against it (VERIF_REPO) and removes the worktree
P="$1"; shift
W=/tmp/wt_seedrun_$$
git -C /repo worktree add -q --detach $W HEAD || exit 2
cd $W || exit 2
git apply "$P" || { echo "patch does not apply"; cd /; git -C /repo worktree remove --force $W; exit 2; }
GOFLAGS=-mod=mod GOPROXY=off GOSUMDB=off go build ./... || { echo "does not build"; cd /; git -C /repo worktree remove --force $W; exit 2; }
for id in "$@"; do
  s=$(date +%s)
  VERIF_REPO=$W VERIF_EVIDENCE=/tmp/seed_evidence_$$ VERIF_REPLAYS=/tmp/seed_replays_$$ GOSYM_WORK=/tmp/seed_work_$$ /verif/check $id quick > /tmp/seed_$id.out 2> /tmp/seed_$id.err
  rc=$?
  echo "$id rc=$rc $(( $(date +%s) - s ))s: $(grep -c '^VIOLATION' /tmp/seed_$id.out) VIOLATION, $(grep -c '^INCONCLUSIVE' /tmp/seed_$id.out) INCONCLUSIVE"
  grep '^VIOLATION' /tmp/seed_$id.out | cut -c1-260 | head -3
done
cd /; git -C /repo worktree remove --force $W; rm -rf /tmp/seed_work_$$
