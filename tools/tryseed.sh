#!/bin/sh
# usage: tools/tryseed.sh <patch.diff> <property-id>...   applies the patch to /repo, runs the quick checks, reverts
P="$1"; shift
cd /repo || exit 2
git diff --quiet || { echo "/repo is dirty"; exit 2; }
git apply "$P" || { echo "patch does not apply"; exit 2; }
GOFLAGS=-mod=mod GOPROXY=off GOSUMDB=off go build ./... || { git checkout -- .; echo "does not build"; exit 2; }
for id in "$@"; do
  s=$(date +%s)
  /verif/check $id quick > /tmp/seed_$id.out 2> /tmp/seed_$id.err
  rc=$?
  echo "$id rc=$rc $(( $(date +%s) - s ))s: $(grep -c '^VIOLATION' /tmp/seed_$id.out) VIOLATION, $(grep -c '^INCONCLUSIVE' /tmp/seed_$id.out) INCONCLUSIVE"
  grep '^VIOLATION' /tmp/seed_$id.out | cut -c1-260 | head -3
done
git checkout -- .
