#!/bin/sh
# runs every claimed check (tier $1, default quick) and prints one line each
cd "$(dirname "$0")/.." || exit 2
TIER="${1:-quick}"
for id in $(python3 -c "import json;print(' '.join(c['property_id'] for c in json.load(open('MANIFEST.json'))['checks']))"); do
  s=$(date +%s)
  ./check $id $TIER > /tmp/check_$id.out 2> /tmp/check_$id.err
  rc=$?
  e=$(date +%s)
  echo "$id rc=$rc $((e-s))s $(grep -c '^VIOLATION' /tmp/check_$id.out) violations, $(grep -c '^INCONCLUSIVE' /tmp/check_$id.out) inconclusive, $(grep -c '^KNOWN-FINDING' /tmp/check_$id.out) known"
done
