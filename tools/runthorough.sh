#!/bin/sh
# runs the thorough command of the given properties (default: all) sequentially
cd "$(dirname "$0")/.." || exit 2
IDS="$*"
[ -z "$IDS" ] && IDS=$(python3 -c "import json;print(' '.join(c['property_id'] for c in json.load(open('MANIFEST.json'))['checks']))")
for id in $IDS; do
  s=$(date +%s)
  ./check $id thorough > /tmp/thorough_$id.out 2> /tmp/thorough_$id.err
  rc=$?
  echo "$id rc=$rc $(( $(date +%s) - s ))s $(grep -c '^VIOLATION' /tmp/thorough_$id.out) violations, $(grep -c '^INCONCLUSIVE' /tmp/thorough_$id.out) inconclusive, $(grep -c '^KNOWN-FINDING' /tmp/thorough_$id.out) known"
done
