#!/usr/bin/env python3
"""Regenerates /verif/MANIFEST.json from the table below (single source of truth for what is claimed)."""
import json, os
ROOT = os.path.dirname(os.path.dirname(os.path.abspath(__file__)))

TECH = "bounded symbolic execution of the real Go code (go/ssa -> SMT-LIB2, z3/cvc5), counterexamples replayed natively"

# id -> (category, claim text, level note)  ; None => not claimed, with reason
P = {}
NA = {}

def claim(pid, cat, text, note, design):
    P[pid] = dict(cat=cat, text=text, note=note, design=design)

execfile = None
exec(open(os.path.join(ROOT, "tools", "claims.py")).read())

checks = []
for pid in sorted(P):
    c = P[pid]
    checks.append({
        "property_id": pid,
        "quick_cmd": "./check %s quick" % pid,
        "thorough_cmd": "./check %s thorough" % pid,
        "evidence_file": "/verif/evidence/%s.json" % pid,
        "replay_cmd_template": "./check %s --replay {path}" % pid,
        "engine": "gosym",
        "level_claimed": {"category": c["cat"], "text": c["text"], "design_ref": c["design"]},
        "level_note": c["note"],
        "technique": TECH,
    })
m = {
    "version": 1,
    "setup_cmd": "mkdir -p bin && cd gosym && GOFLAGS=-mod=mod GOPROXY=off GOSUMDB=off GOTOOLCHAIN=local go build -o ../bin/gosym .",
    "hooks": {
        "guard": "verif",
        "enable": "no source commits: harness files (//go:build verif) and regenerated cut-point files are injected with go/packages Overlay (symbolic run) and `go test -tags verif -overlay` (native replay)",
        "baseline_off_cmd": "cd /repo && GOFLAGS=-mod=mod GOPROXY=off GOSUMDB=off go test -vet=off -count=1 ./...",
        "source_commits": [],
        "add_only": True,
    },
    "engines": [{"name": "gosym", "path": "/verif/gosym", "serves_properties": sorted(P),
                 "kind_free_text": "symbolic executor for go/ssa with an SMT back end (z3 4.8.12 incremental; escalation to fresh z3 / z3 5.1 / cvc5 1.0 processes); harnesses in /verif/harness"}],
    "checks": checks,
    "not_applicable": [{"property_id": k, "reason": v} for k, v in sorted(NA.items())],
    "notes": "Exit codes of ./check: 0 held (KNOWN-FINDING lines possible), 1 VIOLATION (replayed on the real build), 2 inconclusive (never on the unchanged tree for registered bounds). Bounds per harness are in harness/harnesses.json and echoed into every evidence file.",
}
json.dump(m, open(os.path.join(ROOT, "MANIFEST.json"), "w"), indent=1)
print("claimed:", sorted(P), "not applicable:", sorted(NA))
