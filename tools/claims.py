# executed by mkmanifest.py: claim(id, category, text, note, design_ref) / NA[id] = reason
MC = "model_checking"
claim("C01", "translation_validation",
      "Relational symbolic execution of the real artela code against the real go-ethereum v1.12.0 code on identical symbolic inputs: (a) one arbitrary instruction from one arbitrary machine state (stack words, memory, gas, code bytes, calldata, static flag, block context) through the real interpreter loops of both, for every opcode byte of the fork's table except Artela's 0xe0-0xe7; (b) each of the six frame routines on arbitrary arguments with the same arbitrary callee on both sides, artela running with its tracer and call tree, join points off or on with nothing bound. Observables: return data, error class, created address, world-state effects in order, snapshot/revert activity, stack and memory after the instruction.",
      "Step and frame obligations only; equality for whole programs follows by induction over steps and nesting (paper argument in DESIGN.md). Quick: Shanghai table + Shanghai/Frontier frames; thorough adds Frontier and Berlin tables, Spurious-Dragon and Berlin frames and the call-family opcodes through real nested frames. Hash/curve kernels are uninterpreted functions shared by both sides; memory <= 1 word + expansion <= 160 B; 0x64-0x66 excluded (not standard precompiles).",
      "DESIGN.md 3/C01")
claim("C02", "translation_validation",
      "Same relational harnesses, gas observables: gas remaining before the instruction and cost charged for it (per-instruction callback), gas left after the instruction, gas handed back by every frame routine, for symbolic 64-bit gas - so 'out of gas at the same instruction for every gas limit' is part of the step obligation; refund counter changes are compared as world events.",
      "As C01, plus: the memory-size and dynamic-gas function of every table entry of a fork against go-ethereum's on the same symbolic operands, gas and world (RelGas: Spurious Dragon, Berlin, Shanghai quick; every fork thorough; fee compared for expansions <= 128 B), and the real modexp gas function against go-ethereum's on boundary length fields (ModexpGas). Warm/cold access-list state and storage originals are arbitrary but equal on both sides (same uninterpreted readers).",
      "DESIGN.md 3/C02")
claim("C03", MC,
      "Panic-freedom and closed bookkeeping decided by the solver over the real code of the journal instructions, the memory-name loader, the Artela precompile bodies and the CALL frame routine: every slice/index/nil/division/make obligation on every feasible path is a query; unsat for all of them within the stated buffer bounds.",
      "Bounds: byte buffers <= 96..160 B (thorough up to 352 B), one instruction / one frame from an arbitrary state; host StateDB, Aspect runtime and hashing are stubs/uninterpreted; panics inside summarised library kernels are not modelled.",
      "DESIGN.md 3/C03")
claim("C04", MC,
      "One CALL frame of the real EVM.Call (real aspect-core advice code, WASM boundary cut) from an arbitrary state with arbitrary callee and join-point outcomes: on every failing path the event-journal world equals the journal at frame entry; inductive step for call trees.",
      "World state is an event journal (snapshot = length, revert = truncate), the weakest StateDB the property needs; callee havocked; A-jp: a join point returns at most the gas it got.",
      "DESIGN.md 3/C04")
claim("C05", MC,
      "Same frame harness: the recorded order and arguments of pre-join-point, interpreter run and post-join-point are asserted on every path (exactly-once, nesting, calldata incl. empty, value, gas, call-tree index, return data, error text).",
      "One frame (LIFO nesting follows by induction on frames); provider/bindings and the Aspect runtime are stubs.",
      "DESIGN.md 3/C05")
claim("C06", MC,
      "Same frame harness with symbolic 64-bit gas: callee gas == pre-JP leftover, post-JP input == callee leftover, returned gas == post-JP leftover on success/revert, 0 on non-revert failure, textual out-of-gas normalised, never more than supplied.",
      "A-jp (join point returns <= gas it got) is the only assumption on the runtime.",
      "DESIGN.md 3/C06")
claim("C07", MC,
      "Call tree well-formedness: symbolic enter/exit histories on the real CallTree plus the node pushed by the real CALL frame on every path (index, parent, children, cursor restored, lookup).",
      "Histories <= 5 operations quick / 8 thorough; deeper trees by the inductive reading of the per-frame obligation.",
      "DESIGN.md 3/C07")
claim("C08", MC,
      "The call-tree node of the real CALL frame carries caller, target, value, supplied gas, calldata as at entry and ret/err/leftover exactly as returned, on every path (refused, run, failed later).",
      "CALL and CREATE/CREATE2 frames; the CALL instruction on overlapping argument/return areas followed by later stores (identity precompile included), memory 64 B with offsets in steps of 8.",
      "DESIGN.md 3/C08")
claim("C09", MC,
      "VVJNAL and VRJNAL executed on symbolic slot, storage word(s), offset, width and type id against an independent Solidity-layout oracle; invalid operands must be rejected and record nothing.",
      "Strings up to 96 B (3 data slots) for content equality; keccak is an uninterpreted function symbolically and the real one natively.",
      "DESIGN.md 3/C09")
claim("C10", MC,
      "Attribution: journal harnesses check account and call index of the recorded entry; symbolic histories of enter/exit/journal over 2 accounts x 2 keys are compared with a list model (chronological, repeats collapsed, no mixing).",
      "Histories <= 4 operations quick / 5 thorough (126,700 paths) over the tracer API; the stamp is also checked inside and after every frame routine (CALL, CALLCODE, DELEGATECALL, STATICCALL, CREATE/CREATE2) started below two enclosing call-tree nodes.",
      "DESIGN.md 3/C10")
claim("C11", MC,
      "Key-tree lookups: each of the six registration instructions and both journal instructions checked from an arbitrary state: name/index path and (slot, offset, type) reach the same record, refused operations add nothing.",
      "One registration step on top of an optional registered parent, two-registration histories with arbitrary (possibly equal) slots/offsets/types/names followed by a journal entry, arbitrary 256-bit offsets beyond 31 refused everywhere, children with repeated index keys and slots (aliases).",
      "DESIGN.md 3/C11")
claim("C12", MC,
      "Frame condition of all eight journal instructions from an arbitrary state: stack below operands, memory bytes and length, pc, world journal untouched; malformed operands give an error.",
      "One instruction; the table/gas part (constant fee on every fork) is a separate harness.",
      "DESIGN.md 3/C12")
claim("C13", MC,
      "TransferWithRecord on arbitrary parties (possibly equal), amount and balances against the reference 'four observations in order, filtered by account, repeats collapsed'; the transfer call site of the CALL frame runs at most once and before join points and code.",
      "Balances are arbitrary functions of (world journal length, account).",
      "DESIGN.md 3/C13")
claim("C14", MC,
      "Run/RequiredGas of the three Artela precompiles and loadParamBytes on a symbolic payload against a non-wrapping ABI oracle: host gets exactly the decoded address/key/hash/(key,value), attribution to the caller context, fixed fee, malformed payloads rejected, no panic.",
      "Payload <= 160 B quick / 352 B thorough, ABI head and length words fully symbolic 256-bit.",
      "DESIGN.md 3/C14")
claim("C18", "translation_validation",
      "Relational: the same symbolic machine state / frame arguments are executed by the artela code and by the go-ethereum v1.12.0 code (module cache, same cut points regenerated each run) and the complete stream of debug-tracer callbacks is compared: every per-instruction callback (pc, opcode, gas, cost, depth, error, stack, memory, return-data buffer) and every start/end/enter/exit with its arguments; plus, artela-only, start/end and enter/exit stay balanced on every path of the CALL and CREATE frames under join-point failures.",
      "One instruction from an arbitrary state for every opcode byte (Shanghai table quick; Frontier and Berlin tables thorough) and one frame per routine (Shanghai, Frontier quick); the induction over steps and nesting depth is on paper. The ported tracer packages (struct logger, prestate, 4byte, mux) are compared only through this event stream, not method by method; JSON encoding is outside.",
      "DESIGN.md 3/C18")
claim("C20", MC,
      "Work counters (state reads counted by the stub, bytes allocated/copied accumulated by the engine as terms) asserted against a bound for the journal instructions, the memory-name loader, the Artela precompiles and one real interpreter step per opcode; every allocation that leaves the encoded buffer bound is handed to the harness with its symbolic size and must be covered by the gas charged before it; the real modexp body and gas function behind RunPrecompiledContract; no standard instruction charged less than go-ethereum for the same operands.",
      "VRJNAL long strings are the subject of a known finding (data-driven loop under a flat fee). Work inside the remaining summarised kernels (hash and curve precompiles, the exponentiation itself) is not seen; gas supplied to modexp <= 2^40.",
      "DESIGN.md 3/C20")
claim("C15", MC,
      "TLOAD/TSTORE/MCOPY executed through the real interpreter loop (arbitrary stack, memory, gas, static flag) on the Cancun table and on three earlier tables: transient slot per executing address, write refused in static context, exact warm-access fee; MCOPY against a memmove oracle on the zero-extended pre-state with exact copy+expansion gas for case-split small operands, and must-fail / coverage obligations for operands up to 2^256; the three bytes are invalid instructions before Cancun.",
      "MCOPY content and gas: dst, src, len <= 5 with 0..3 words of memory, all byte contents symbolic; larger operands symbolic for the failure/coverage obligations only. 'Empty at transaction start' and 'restored on revert' are the host StateDB's journal (a transient write is one journal event, covered by C04).",
      "DESIGN.md 3/C15")
claim("C16", MC,
      "The three list-valued tracer queries evaluated twice while the engine chooses Go's map iteration order freely (every order is a path): answers must be identical; two EVM instances share no tracer structure; every write of the code under test to memory created by package initialisation (shared constants, tables, precompile instances) is reported, across the journal, frame, precompile and step harnesses.",
      "Maps of 3 entries (index keys and slots may repeat). A shared write is established symbolically (no native replay). Host StateDB and library determinism are outside.",
      "DESIGN.md 3/C16")
claim("C19", MC,
      "Well-nested symbolic event streams (several Aspects on one join point, calls issued from inside an Aspect, child and grandchild frames, deep chains with several children) driven into the real callTracer and flatCallTracer: no panic, every frame and Aspect execution emitted once with its own gas/output/error, flat sub-trace counts equal emitted children, trace addresses unique and prefix-closed.",
      "Quick: <=2 Aspects on the pre join point, 1 on post, <=1 call inside an Aspect, 1 child (+grandchild), up to 3 post-call Aspects in the flat variant, chains to depth 4 with 3 children; thorough: chains to depth 8. JSON marshalling and ABI revert decoding are opaque.",
      "DESIGN.md 3/C19")
claim("C17", "other",
      "Reduction decided per unit, not an exploration of schedules: (1) isolation: in every journal, frame, precompile and step harness each write of the code under test to memory created by package initialisation (tables, shared constants, precompile instances) is a reported violation, and two EVM instances are shown to share no tracer/interpreter structure - instances without shared mutable memory cannot race and every interleaving equals the sequential run; (2) the abort flag is a sync/atomic.Bool and every use of it in the package is the receiver of one of its methods (checked on the SSA of the current tree); (3) a jump executed while the flag's Load answers arbitrarily-but-monotonically (Cancel from another goroutine at any moment) or after Cancel: no panic, bookkeeping closed, the frame stops at that jump without charging a further instruction.",
      "No goroutine scheduler and no Go memory model are encoded; races inside dependencies (host StateDB, crypto pools, Aspect runtime) are not seen; 'promptly' is 'at the next jump of each open frame'.",
      "DESIGN.md 3/C17")
for pid, why in {
}.items():
    NA[pid] = why
