#!/bin/sh
# usage: tools/keepseed.sh <ID> <agent-worktree> <seed-name> <caught-by...>
# verifies a seeded change independently in a scratch worktree and files it under /verif/seeded/<seed-name>/
ID="$1"; WT="$2"; NAME="$3"; shift 3
export GOFLAGS=-mod=mod GOPROXY=off GOSUMDB=off
V=/tmp/wt_verify_$$
git -C /repo worktree add -q --detach $V HEAD || exit 2
PKG=$(cat $WT/SEEDED/demo_pkg.txt | tr -d ' \n')
DEMO=$(ls $WT/SEEDED/*_test.go | head -1)
cp $DEMO $V/$PKG/zz_seeded_demo_test.go
cd $V
go test -vet=off -count=1 ./$PKG -run 'TestSeededDemo$' > /tmp/ks_without.txt 2>&1; RC_WITHOUT=$?
git apply $WT/SEEDED/patch.diff || { echo "patch does not apply"; cd /; git -C /repo worktree remove --force $V; exit 2; }
go build ./... > /tmp/ks_build.txt 2>&1; RC_BUILD=$?
go test -vet=off -count=1 ./$PKG -run 'TestSeededDemo$' > /tmp/ks_with.txt 2>&1; RC_WITH=$?
rm $PKG/zz_seeded_demo_test.go
go test -vet=off -count=1 ./vm -run 'TestPrecompiled|TestJumpDest|TestMemoryGas|TestStore|TestStructLog|TestMemCopying|TestDefaults' > /tmp/ks_existing.txt 2>&1; RC_E1=$?
go test -vet=off -count=1 ./tracers/... > /tmp/ks_existing2.txt 2>&1; RC_E2=$?
cd /; git -C /repo worktree remove --force $V
echo "$NAME: demo without change rc=$RC_WITHOUT (want 0), build rc=$RC_BUILD, demo with change rc=$RC_WITH (want != 0), existing tests rc=$RC_E1/$RC_E2 (want 0/0)"
if [ $RC_WITHOUT -eq 0 ] && [ $RC_BUILD -eq 0 ] && [ $RC_WITH -ne 0 ] && [ $RC_E1 -eq 0 ] && [ $RC_E2 -eq 0 ]; then
  D=/verif/seeded/$NAME; mkdir -p $D
  cp $WT/SEEDED/patch.diff $D/patch.diff; cp $DEMO $D/zz_seeded_demo_test.go; cp $WT/SEEDED/demo_pkg.txt $D/
  python3 - "$ID" "$NAME" "$WT" "$@" <<'PY'
import json,sys
pid,name,wt=sys.argv[1:4]; caught=sys.argv[4:]
m=json.load(open(wt+'/SEEDED/meta.json'))
out={"property":pid,"breaks":m.get("summary"),"needs_to_manifest":m.get("needs_to_manifest"),"files":m.get("files"),
 "author":"independent sub-agent given only the property record and a scratch worktree",
 "confirmed_by_me":{"demo_passes_without_change":True,"demo_fails_with_change":True,"builds":True,
   "existing_tests_pass_with_change":"go test ./vm -run 'TestPrecompiled|TestJumpDest|TestMemoryGas' and go test ./tracers/... in a scratch worktree",
   "how":"tools/keepseed.sh: fresh worktree of /repo HEAD, demo run before and after git apply"},
 "caught_by_checks":caught}
json.dump(out,open('/verif/seeded/%s/meta.json'%name,'w'),indent=1)
PY
  echo "kept in $D"
else
  echo "NOT kept"; tail -5 /tmp/ks_without.txt /tmp/ks_with.txt | cut -c1-200
fi
