//go:build verif

package native

import (
	"errors"
	"math/big"

	"github.com/artela-network/artela-evm/vm"
	"github.com/artela-network/aspect-core/types"
	"github.com/ethereum/go-ethereum/common"
	"google.golang.org/protobuf/proto"
)

func init() {
	verifHarnesses["VerifHarness_CallTracerStream"] = VerifHarness_CallTracerStream
	verifHarnesses["VerifHarness_FlatDeep"] = VerifHarness_FlatDeep
}

// verifStreamSink is what both tracers have in common for the stream driver.
type verifStreamSink interface {
	CaptureTxStart(gasLimit uint64)
	CaptureTxEnd(restGas uint64)
	CaptureEnd(output []byte, gasUsed uint64, err error)
	CaptureEnter(typ vm.OpCode, from common.Address, to common.Address, input []byte, gas uint64, value *big.Int)
	CaptureExit(output []byte, gasUsed uint64, err error)
	CaptureAspectEnter(joinpoint types.JoinPointRunType, from, to, aspectId common.Address, input []byte, gas uint64, value *big.Int, execCtx proto.Message)
	CaptureAspectExit(joinpoint types.JoinPointRunType, result *types.AspectExecutionResult)
}

type verifAspectExec struct {
	typ    types.JoinPointRunType
	gas    uint64
	left   uint64
	out    []byte
	err    error
	ncalls int
}

func verifErr(k uint64) error {
	switch k {
	case 0:
		return nil
	case 1:
		return vm.ErrExecutionReverted
	}
	return errors.New("boom")
}

func verifChoose(name string, max uint64) int {
	v := verifU64(name)
	verifAssume(v <= max)
	return int(verifConcretize(v))
}

// verifJP drives one Aspect execution (with up to maxCalls EVM calls issued from inside it).
func verifJP(t verifStreamSink, typ types.JoinPointRunType, maxCalls uint64, target common.Address) verifAspectExec {
	x := verifAspectExec{typ: typ}
	x.gas = verifU64("jp.gas")
	t.CaptureAspectEnter(typ, common.Address{1}, common.Address{2}, common.Address{3}, []byte{1}, x.gas, nil, nil)
	x.ncalls = verifChoose("jp.calls", maxCalls)
	for i := 0; i < x.ncalls; i++ {
		t.CaptureEnter(vm.CALL, common.Address{3}, target, []byte{2}, 10, big.NewInt(0))
		t.CaptureExit([]byte{3}, 5, verifErr(uint64(verifChoose("jp.call.err", verifParam("errkinds")))))
	}
	x.left = verifU64("jp.left")
	verifAssume(x.left <= x.gas)
	x.err = verifErr(uint64(verifChoose("jp.err", verifParam("jperrkinds"))))
	x.out = verifBytes("jp.out", 1, 1)
	t.CaptureAspectExit(typ, &types.AspectExecutionResult{Gas: x.left, Err: x.err, Ret: x.out})
	return x
}

func verifJPType(name string) types.JoinPointRunType {
	k := verifChoose(name, 1)
	if k == 0 {
		return types.JoinPointRunType_PreContractCall
	}
	return types.JoinPointRunType_PostContractCall
}

func verifCountFrames(f *callFrame) int {
	n := 1
	for i := range f.Calls {
		n += verifCountFrames(&f.Calls[i])
	}
	for i := range f.JoinPoints {
		for j := range f.JoinPoints[i].Calls {
			n += verifCountFrames(&f.JoinPoints[i].Calls[j])
		}
	}
	return n
}

// VerifHarness_CallTracerStream: a well-nested stream of call and Aspect events
// (several Aspects on one join point, calls issued from inside an Aspect) driven
// into the real call tracer (flat == 0) or flat call tracer (flat == 1).
func VerifHarness_CallTracerStream(flat uint64) {
	maxJP, maxCalls, maxKids := verifParam("aspects"), verifParam("callsinaspect"), verifParam("children")
	inner := &callTracer{callstack: make([]callFrame, 1)}
	var t verifStreamSink = inner
	precompile := common.BytesToAddress([]byte{4})
	target := common.Address{9}
	if flat == 1 {
		ft := &flatCallTracer{tracer: inner, activePrecompiles: []common.Address{precompile}}
		ft.config.IncludePrecompiles = verifBool("includeprecompiles")
		ft.config.ConvertParityErrors = verifBool("parityerrors")
		t = ft
		if verifBool("target.precompile") {
			target = precompile
		}
	} else {
		inner.config.WithLog = verifBool("withlog")
	}
	t.CaptureTxStart(1000)
	inner.CaptureStart(nil, common.Address{1}, common.Address{2}, false, []byte{7}, 900, big.NewInt(1))
	enters := 0
	var execs []verifAspectExec
	// pre join point: several Aspects of the same type may be bound
	nPre := verifChoose("npre", maxJP)
	for i := 0; i < nPre; i++ {
		x := verifJP(t, types.JoinPointRunType_PreContractCall, maxCalls, target)
		enters += x.ncalls
		execs = append(execs, x)
	}
	nKids := verifChoose("nkids", maxKids)
	for i := 0; i < nKids; i++ {
		t.CaptureEnter(vm.CALL, common.Address{2}, target, []byte{4}, 100, big.NewInt(0))
		enters++
		if i == 0 && verifBool("grandchild") {
			t.CaptureEnter(vm.STATICCALL, target, common.Address{8}, nil, 50, nil)
			t.CaptureExit(nil, 1, nil)
			enters++
		}
		t.CaptureExit([]byte{5}, 50, verifErr(uint64(verifChoose("kid.err", verifParam("errkinds")))))
	}
	nPost := verifChoose("npost", verifParam("postaspects"))
	for i := 0; i < nPost; i++ {
		x := verifJP(t, types.JoinPointRunType_PostContractCall, maxCalls, target)
		enters += x.ncalls
		execs = append(execs, x)
	}
	t.CaptureEnd([]byte{6}, 800, nil)
	t.CaptureTxEnd(100)
	verifReach("stream-done")

	verifAssert(len(inner.callstack) == 1, "C19: exactly one top-level frame remains")
	root := &inner.callstack[0]
	filtered := flat == 1 && target == precompile && !ft(t).config.IncludePrecompiles
	if filtered {
		// calls to precompiles are left out wherever they were issued: by the frame's own code
		// (before or after Aspect executions) or from inside an Aspect
		verifAssert(len(root.Calls) == 0, "C19: a filtered precompile call issued by the frame is left out of the trace")
		for i := range root.JoinPoints {
			verifAssert(len(root.JoinPoints[i].Calls) == 0, "C19: a filtered precompile call issued by an Aspect is left out of the trace")
		}
	}
	if !filtered {
		verifAssert(verifCountFrames(root) == 1+enters, "C19: every entered frame is emitted exactly once")
		verifAssert(len(root.Calls) == nKids, "C19: calls of the frame sit under the frame")
	}
	verifAssert(len(root.JoinPoints) == len(execs), "C19: every Aspect execution is emitted exactly once")
	for i, x := range execs {
		if i >= len(root.JoinPoints) {
			break
		}
		jp := &root.JoinPoints[i]
		verifAssert(jp.Type == x.typ && jp.Gas == x.gas, "C19: Aspect frames in order of execution")
		verifAssert(jp.GasUsed == x.gas-x.left, "C19: each Aspect execution carries its own gas used")
		verifAssert(verifBytesEq(jp.Output, x.out) || (x.err != nil && len(jp.Output) == 0), "C19: each Aspect execution carries its own output")
		if x.err == nil {
			verifAssert(jp.Error == "", "C19: each Aspect execution carries its own error (none)")
		} else {
			verifAssert(jp.Error == x.err.Error(), "C19: each Aspect execution carries its own error")
		}
		if !filtered {
			verifAssert(len(jp.Calls) == x.ncalls, "C19: calls issued by an Aspect sit under that Aspect execution")
		}
	}
	if flat == 1 {
		frames, err := flatFromNested(root, []int{}, ft(t).config.ConvertParityErrors, nil)
		verifAssert(err == nil, "C19: flattening succeeds")
		verifReach("flattened")
		// every Aspect execution appears in the flat trace with its own gas used; a result is
		// dropped only for failures other than a revert (as for ordinary calls)
		for i, x := range execs {
			pos := i
			if i >= nPre {
				pos = i + len(root.Calls)
			}
			found := 0
			for k := range frames {
				if len(frames[k].TraceAddress) == 1 && frames[k].TraceAddress[0] == pos {
					found++
					if x.err == nil || x.err == vm.ErrExecutionReverted {
						verifAssert(frames[k].Result != nil && frames[k].Result.GasUsed != nil && *frames[k].Result.GasUsed == x.gas-x.left,
							"C19: the flat trace keeps each Aspect execution's own gas used and output (also when it reverted)")
					} else {
						verifAssert(frames[k].Result == nil, "C19: the flat trace drops the result of an Aspect execution that failed otherwise")
					}
				}
			}
			verifAssert(found == 1, "C19: every Aspect execution appears exactly once in the flat trace")
		}
		// sub-trace counts equal emitted children; trace addresses unique and prefix-closed
		for i := range frames {
			kids := 0
			for j := range frames {
				if verifIsChild(frames[i].TraceAddress, frames[j].TraceAddress) {
					kids++
				}
			}
			verifAssert(frames[i].Subtraces == kids, "C19: sub-trace count equals the number of emitted children")
			for j := range frames {
				if i != j {
					verifAssert(!verifSameAddr(frames[i].TraceAddress, frames[j].TraceAddress), "C19: trace addresses are unique")
				}
			}
			if len(frames[i].TraceAddress) > 0 {
				found := false
				pa := frames[i].TraceAddress[:len(frames[i].TraceAddress)-1]
				for j := range frames {
					if verifSameAddr(pa, frames[j].TraceAddress) {
						found = true
					}
				}
				verifAssert(found, "C19: trace addresses are prefix-closed")
			}
		}
	}
}

func ft(t verifStreamSink) *flatCallTracer { return t.(*flatCallTracer) }

func verifSameAddr(a, b []int) bool {
	if len(a) != len(b) {
		return false
	}
	for i := range a {
		if a[i] != b[i] {
			return false
		}
	}
	return true
}

func verifIsChild(parent, child []int) bool {
	return len(child) == len(parent)+1 && verifSameAddr(parent, child[:len(parent)])
}

// verifFlatInvariants checks the flattened trace: sub-trace counts, unique and
// prefix-closed trace addresses, one flat frame per nested frame.
func verifFlatInvariants(root *callFrame, expectFrames int) {
	frames, err := flatFromNested(root, []int{}, false, nil)
	verifAssert(err == nil, "C19: flattening succeeds")
	verifAssert(len(frames) == expectFrames, "C19: the flat trace has one entry per frame")
	for i := range frames {
		kids := 0
		for j := range frames {
			if verifIsChild(frames[i].TraceAddress, frames[j].TraceAddress) {
				kids++
			}
			if i != j {
				verifAssert(!verifSameAddr(frames[i].TraceAddress, frames[j].TraceAddress), "C19: trace addresses are unique")
			}
		}
		verifAssert(frames[i].Subtraces == kids, "C19: sub-trace count equals the number of emitted children")
		if len(frames[i].TraceAddress) > 0 {
			found := false
			pa := frames[i].TraceAddress[:len(frames[i].TraceAddress)-1]
			for j := range frames {
				if verifSameAddr(pa, frames[j].TraceAddress) {
					found = true
				}
			}
			verifAssert(found, "C19: trace addresses are prefix-closed")
		}
	}
}

// VerifHarness_FlatDeep: a chain of nested calls of symbolic depth with several
// children (calls and Aspect executions) at the bottom, flattened.
func VerifHarness_FlatDeep() {
	maxDepth, maxKids := verifParam("depth"), verifParam("children")
	inner := &callTracer{callstack: make([]callFrame, 1)}
	t := &flatCallTracer{tracer: inner}
	t.config.IncludePrecompiles = true
	t.CaptureTxStart(1000)
	inner.CaptureStart(nil, common.Address{1}, common.Address{2}, false, nil, 900, big.NewInt(1))
	depth := verifChoose("chain", maxDepth)
	for d := 0; d < depth; d++ {
		t.CaptureEnter(vm.CALL, common.Address{2}, common.Address{byte(10 + d)}, nil, 100, big.NewInt(0))
	}
	frames := 1 + depth
	if verifBool("bottom.pre") {
		verifJP(t, types.JoinPointRunType_PreContractCall, 0, common.Address{9})
		frames++
	}
	kids := verifChoose("bottom.kids", maxKids)
	for k := 0; k < kids; k++ {
		t.CaptureEnter(vm.CALL, common.Address{3}, common.Address{byte(40 + k)}, nil, 10, big.NewInt(0))
		t.CaptureExit(nil, 1, nil)
		frames++
	}
	if verifBool("bottom.post") {
		verifJP(t, types.JoinPointRunType_PostContractCall, 0, common.Address{9})
		frames++
	}
	for d := 0; d < depth; d++ {
		t.CaptureExit(nil, 1, nil)
	}
	t.CaptureEnd(nil, 800, nil)
	t.CaptureTxEnd(100)
	verifReach("stream-done")
	verifAssert(len(inner.callstack) == 1, "C19: exactly one top-level frame remains")
	verifFlatInvariants(&inner.callstack[0], frames)
}

func init() {
	verifHarnesses["VerifHarness_ClearFailedLogs"] = VerifHarness_ClearFailedLogs
}

// VerifHarness_ClearFailedLogs: the with-log call tracer's pruning on a symbolic frame tree
// (a chain root -> a -> b -> c with a sibling of b): a frame's logs survive exactly when
// neither the frame nor any of its ancestors failed (the reference tracer's rule).
func VerifHarness_ClearFailedLogs() {
	mk := func(name string) callFrame {
		f := callFrame{Type: vm.CALL, Logs: []callLog{{Address: common.Address{1}}}}
		if verifBool(name + ".failed") {
			f.Error = "execution reverted"
		}
		return f
	}
	c := mk("c")
	b := mk("b")
	b.Calls = []callFrame{c}
	sib := mk("sib")
	a := mk("a")
	a.Calls = []callFrame{b, sib}
	root := mk("root")
	root.Calls = []callFrame{a}
	fr, fa, fb, fc, fs := root.failed(), a.failed(), b.failed(), c.failed(), sib.failed()
	clearFailedLogs(&root, false)
	verifReach("pruned")
	keep := func(f *callFrame) bool { return len(f.Logs) == 1 }
	ra := &root.Calls[0]
	rb := &ra.Calls[0]
	rs := &ra.Calls[1]
	rc := &rb.Calls[0]
	verifAssert(keep(&root) == !fr, "C18: the top frame keeps its logs iff it did not fail")
	verifAssert(keep(ra) == (!fr && !fa), "C18: a frame keeps its logs iff neither it nor an ancestor failed (depth 1)")
	verifAssert(keep(rb) == (!fr && !fa && !fb), "C18: a frame keeps its logs iff neither it nor an ancestor failed (depth 2)")
	verifAssert(keep(rs) == (!fr && !fa && !fs), "C18: a frame keeps its logs iff neither it nor an ancestor failed (sibling)")
	verifAssert(keep(rc) == (!fr && !fa && !fb && !fc), "C18: a frame keeps its logs iff neither it nor an ancestor failed (depth 3)")
}
