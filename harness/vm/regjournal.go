//go:build verif

package vm

import (
	"github.com/ethereum/go-ethereum/common"
	"github.com/holiman/uint256"
)

func init() {
	verifHarnesses["VerifHarness_RegJournal"] = VerifHarness_RegJournal
	verifHarnesses["VerifHarness_LoadDataFromMem"] = VerifHarness_LoadDataFromMem
}

// memBytesOracle decides, in non-wrapping arithmetic, whether ptr denotes a
// Solidity `bytes memory` value (32-byte length word followed by the data) that
// lies completely inside memory.
func memBytesOracle(ptr *uint256.Int, mem []byte) (ok bool, start, length uint64) {
	n := uint64(len(mem))
	pOk := verifAnd(ptr.IsUint64(), verifAnd(ptr.Uint64() <= n, n-ptr.Uint64() >= 32))
	if !pOk {
		return false, 0, 0
	}
	p := ptr.Uint64()
	L := new(uint256.Int).SetBytes32(mem[p : p+32])
	lOk := verifAnd(L.IsUint64(), L.Uint64() <= n-p-32)
	if !lOk {
		return false, 0, 0
	}
	return true, p + 32, L.Uint64()
}

// VerifHarness_LoadDataFromMem: the helper that reads a name/index key from
// EVM memory, for every pointer and every memory content up to the bound.
func VerifHarness_LoadDataFromMem() {
	max := int(verifParam("memmax"))
	memLen := verifU64("memlen")
	verifAssume(memLen <= uint64(max))
	memb := verifBytes("mem", memLen, max)
	ptr := verifU256("ptr")
	m := NewMemory()
	m.store = memb

	data, dl, err := loadDataFromMem(&ptr, m)
	verifReach("returned")
	verifAssert(verifWorkAlloc() <= 2*memLen+64, "C20: allocation bounded by the memory already paid for")

	ok, start, length := memBytesOracle(&ptr, memb)
	if !ok {
		verifReach("invalid")
		verifAssert(err != nil, "C03: pointer or length outside memory is rejected")
		return
	}
	verifReach("valid")
	verifAssert(err == nil, "valid in-memory bytes accepted")
	verifAssert(dl == length, "decoded length")
	verifAssert(uint64(len(data)) == length, "returned length")
	j := verifU64("j")
	verifAssume(j < length)
	verifAssert(data[j] == memb[start+j], "returned content")
}

// VerifHarness_RegJournal: the six key-registration instructions
// (0 RSVJNAL, 1 VSVJNAL, 2 IRVVJNAL, 3 IVVVJNAL, 4 IRVRJNAL, 5 IVVRJNAL).
func VerifHarness_RegJournal(op uint64) {
	max := int(verifParam("memmax"))
	env := newVerifEnv()
	self := verifAddr("self")
	memLen := verifU64("memlen")
	verifAssume(memLen <= uint64(max))
	memb := verifBytes("mem", memLen, max)
	sc := verifScope(self, memb)
	below := verifU256("below")
	base, slot, key, offset := verifU256("base"), verifU256("slot"), verifU256("key"), verifU256("offset")
	typeId, parentTypeId := verifU256("typeid"), verifU256("parenttypeid")
	var tid, ptid common.Hash = typeId.Bytes32(), parentTypeId.Bytes32()
	nested := op >= 2
	hasOffset := op == 1 || op == 2 || op == 3
	keyInMem := op == 0 || op == 1 || op == 2 || op == 4
	parentRegistered := verifBool("parentregistered")
	tr := env.evm.tracer
	if nested && parentRegistered {
		err := tr.SaveStateKey(self, nil, &base, nil, ptid, common.Hash{}, []byte("p"))
		verifAssert(err == nil, "parent registration succeeds")
	}

	verifPush(sc, below)
	var execute executionFunc
	switch op {
	case 0:
		verifPush(sc, typeId)
		verifPush(sc, slot)
		verifPush(sc, key)
		execute = opReferenceStateVarJournal
	case 1:
		verifPush(sc, typeId)
		verifPush(sc, offset)
		verifPush(sc, slot)
		verifPush(sc, key)
		execute = opValueStateVarJournal
	case 2, 3:
		verifPush(sc, parentTypeId)
		verifPush(sc, typeId)
		verifPush(sc, offset)
		verifPush(sc, key)
		verifPush(sc, slot)
		verifPush(sc, base)
		execute = opReferenceIndexValueStorageJournal
		if op == 3 {
			execute = opValueIndexValueStorageJournal
		}
	default:
		verifPush(sc, parentTypeId)
		verifPush(sc, typeId)
		verifPush(sc, key)
		verifPush(sc, slot)
		verifPush(sc, base)
		execute = opReferenceIndexReferenceStorageJournal
		if op == 5 {
			execute = opValueIndexReferenceStorageJournal
		}
	}
	pc := uint64(11)
	ret, err := execute(verifCtx, &pc, env.interp, sc)
	verifReach("returned")

	verifAssert(ret == nil, "C12: no return data")
	verifAssert(sc.Stack.len() == 1, "C12: exactly the declared operands are consumed")
	verifAssert(sc.Stack.peek().Eq(&below), "C12: stack below the operands untouched")
	verifAssert(pc == 11, "C12: pc untouched")
	verifAssert(uint64(sc.Memory.Len()) == memLen, "C12: memory length untouched")
	mj := verifU64("mj")
	verifAssume(mj < memLen)
	verifAssert(sc.Memory.store[mj] == memb[mj], "C12: memory content untouched")
	verifAssert(len(env.db.journal) == 0, "C12: no world-state mutation")
	verifAssert(env.db.reads == 0, "C20: no state read")
	verifAssert(verifWorkAlloc() <= 2*memLen+2048, "C20: allocation bounded by the memory already paid for")

	// which index key does the instruction denote?
	var index []byte
	keyOk := true
	if keyInMem {
		ok, start, length := memBytesOracle(&key, memb)
		keyOk = ok
		if ok {
			index = memb[start : start+length]
		}
	} else {
		k32 := key.Bytes32()
		index = k32[:]
	}
	offOk := true
	if hasOffset {
		offOk = verifAnd(offset.IsUint64(), offset.Uint64() <= 31)
	}
	parentOk := !nested || parentRegistered
	var off8 uint8
	var offArg *uint256.Int
	if hasOffset {
		offArg = &offset
		off8 = uint8(offset.Uint64())
	}
	found, _ := tr.StateChanges().Slot(self, &slot, offArg, tid)
	_ = found
	rec := tr.StateChanges().findKey(self, &slot, off8, tid)
	if !(keyOk && offOk && parentOk) {
		verifReach("malformed")
		verifAssert(err != nil, "C11: malformed operands or an unknown parent are refused")
		verifAssert(err != nil && err != ErrExecutionReverted && err != errStopToken, "C12: malformed operands halt the frame exceptionally")
		if !nested || !parentRegistered {
			verifAssert(rec == nil || !offOk, "C11: a refused registration adds nothing to the flat index")
		}
		return
	}
	verifReach("wellformed")
	verifAssert(err == nil, "C12: well-formed registration succeeds")
	verifAssert(err == nil, "C11: a registration under a registered parent (any offset 0..31) succeeds")
	verifAssert(rec != nil, "C11: registered key reachable by (slot, offset, type)")
	var byName *StorageKey
	if nested {
		byName = tr.StateChanges().FindKeyIndices(self, "p", index)
	} else {
		byName = tr.StateChanges().FindKeyIndices(self, string(index))
	}
	verifAssert(byName != nil, "C11: registered key reachable by name/index path")
	// a child that collides with its parent on (slot, 0, type) is a re-registration of the
	// parent's flat key; outside that corner both lookups must reach the same record
	collide := nested && verifAnd(verifAnd(slot.Eq(&base), off8 == 0), tid == ptid)
	if !collide {
		verifAssert(byName == rec, "C11: both lookups reach the same record")
	}
}
