//go:build verif

package vm

import (
	"math/big"

	"github.com/ethereum/go-ethereum/common"
	"github.com/holiman/uint256"
)

func init() {
	verifHarnesses["VerifHarness_Cancun"] = VerifHarness_Cancun
}

// VerifHarness_Cancun: TLOAD (0x5c), TSTORE (0x5d), MCOPY (0x5e) through the real
// interpreter loop on the given fork's table; the state after the instruction is
// observed through the per-instruction callback of the following STOP.
func VerifHarness_Cancun(opb, fork uint64) {
	env := newVerifEnv()
	evm := env.evm
	table, rules := verifTable(fork)
	evm.chainRules = rules
	env.interp.table = table
	lg := &verifSnapLogger{}
	lg.rec = &verifRecorder{}
	evm.Config.Tracer = lg
	op := OpCode(opb)
	self := verifAddr("self")
	gas := verifU64("gas")
	contract := NewContract(AccountRef(verifAddr("caller")), AccountRef(self), new(big.Int), gas)
	contract.Code = []byte{byte(op), byte(STOP)}
	below := verifU256("below")
	a, b, c := verifU256("a"), verifU256("b"), verifU256("c")
	words := []uint256.Int{below}
	switch op {
	case TLOAD:
		words = append(words, a)
	case TSTORE:
		words = append(words, b, a) // top = key a, then value b
	default:
		words = append(words, c, b, a) // top = dst a, src b, len c
	}
	verifStackHook = func() *Stack { return &Stack{data: words} }
	mwRaw := verifU64("memwords")
	verifAssume(mwRaw <= 3)
	mw := verifConcretize(mwRaw)
	if op == MCOPY {
		// small operands are case-split before they are pushed, so that the copy is a fixed
		// sequence of byte moves at fixed addresses; larger operands stay symbolic (gas / no-panic only)
		lim := verifParam("mcopymax")
		small := verifAnd(verifAnd(verifAnd(a.IsUint64(), b.IsUint64()), c.IsUint64()),
			verifAnd(verifAnd(a.Uint64() <= lim, b.Uint64() <= lim), c.Uint64() <= lim))
		if small {
			a = *uint256.NewInt(verifConcretize(a.Uint64()))
			b = *uint256.NewInt(verifConcretize(b.Uint64()))
			c = *uint256.NewInt(verifConcretize(c.Uint64()))
			words[1], words[2], words[3] = c, b, a
		}
	}
	mem0 := verifBytes("mem", mw*32, 96)
	memCopy := common.CopyBytes(mem0)
	verifMemoryHook = func() *Memory { return &Memory{store: mem0, lastGasCost: verifMemCost(mw * 32)} }
	static := verifBool("static")

	_, err := env.interp.Run(verifCtx, contract, nil, static)
	verifReach("returned")
	used := gas - contract.Gas

	if fork < 11 {
		verifReach("pre-cancun")
		_, invalid := err.(*ErrInvalidOpCode)
		verifAssert(invalid, "C15: before Cancun these opcode bytes are invalid instructions")
		verifAssert(len(env.db.journal) == 0, "C15: an invalid instruction has no effect")
		return
	}
	var after *verifSnap
	if len(lg.snaps) == 2 && lg.snaps[1].pc == 1 {
		after = &lg.snaps[1]
	}
	switch op {
	case TLOAD:
		if gas < 100 {
			verifAssert(err == ErrOutOfGas, "C15: TLOAD costs the warm-access fee")
			return
		}
		verifReach("tload")
		verifAssert(err == nil && used == 100, "C15: TLOAD costs exactly the warm-access fee")
		want := env.db.GetTransientState(self, a.Bytes32())
		verifAssert(after != nil && len(after.stack) == 2, "C15: TLOAD replaces the key by the value")
		got := after.stack[1].Bytes32()
		verifAssert(got == want, "C15: TLOAD reads the executing contract's transient slot")
		verifAssert(after.stack[0].Eq(&below), "C15: stack below untouched")
		verifAssert(len(env.db.journal) == 0, "C15: TLOAD writes nothing")
	case TSTORE:
		if gas < 100 {
			verifAssert(err == ErrOutOfGas && len(env.db.journal) == 0, "C15: TSTORE costs the warm-access fee")
			return
		}
		if static {
			verifReach("tstore-static")
			verifAssert(err == ErrWriteProtection, "C15: TSTORE refuses writes in static context")
			verifAssert(len(env.db.journal) == 0, "C15: a refused TSTORE emits nothing")
			return
		}
		verifReach("tstore")
		verifAssert(err == nil && used == 100, "C15: TSTORE costs exactly the warm-access fee")
		verifAssert(len(env.db.journal) == 1, "C15: exactly one transient write")
		ev := env.db.journal[0]
		verifAssert(ev.kind == "SetTransientState" && ev.addr == self && ev.key == common.Hash(a.Bytes32()) && ev.val == common.Hash(b.Bytes32()),
			"C15: TSTORE writes (key, value) under the executing contract's address")
		verifAssert(after != nil && len(after.stack) == 1 && after.stack[0].Eq(&below), "C15: TSTORE pops two words")
	default:
		// MCOPY: dst a, src b, len c
		oldLen := mw * 32
		fits := verifAnd(verifAnd(a.IsUint64(), b.IsUint64()), c.IsUint64())
		lim := verifParam("mcopymax")
		if !fits || c.Uint64() > lim || a.Uint64() > lim || b.Uint64() > lim {
			// outside the content bound of this harness: must not panic, must not succeed for free
			verifReach("mcopy-large")
			if err == nil && !c.IsZero() {
				verifAssert(used >= 3, "C15: MCOPY is never free")
			}
			if !c.IsZero() && !fits {
				// a range that does not even fit in 64 bits cannot be paid for: it must fail, whatever the low bits are
				verifAssert(err != nil, "C15: MCOPY with an operand beyond 2^64 fails (memory must cover both source and destination)")
			}
			if !c.IsZero() && fits && err == nil {
				// paid-for success: memory now covers both ranges
				hi := a.Uint64()
				if b.Uint64() > hi {
					hi = b.Uint64()
				}
				verifAssert(after != nil && uint64(len(after.mem)) >= hi+c.Uint64(), "C15: memory expands to cover both source and destination")
			}
			return
		}
		// the length is case-split so that each copy is a fixed number of byte moves
		dst, src, n := a.Uint64(), b.Uint64(), c.Uint64()
		newLen := oldLen
		if n > 0 {
			hi := dst
			if src > hi {
				hi = src
			}
			need := (hi + n + 31) / 32 * 32
			if need > newLen {
				newLen = need
			}
		}
		cost := 3 + 3*((n+31)/32) + verifMemCost(newLen) - verifMemCost(oldLen)
		if gas < cost {
			verifAssert(err == ErrOutOfGas, "C15: MCOPY out of gas below the copy+expansion fee")
			return
		}
		verifReach("mcopy")
		verifAssert(err == nil, "C15: MCOPY succeeds when paid for")
		verifAssert(used == cost, "C15: MCOPY charges 3 + 3*words + memory expansion")
		verifAssert(after != nil && len(after.stack) == 1 && after.stack[0].Eq(&below), "C15: MCOPY pops three words")
		verifAssert(uint64(len(after.mem)) == newLen, "C15: memory expands to cover source and destination")
		j := verifU64("j")
		verifAssume(j < newLen)
		// memmove oracle over the zero-extended pre-state
		var want byte
		if j >= dst && j-dst < n {
			s := src + (j - dst)
			if s < oldLen {
				want = memCopy[s]
			}
		} else if j < oldLen {
			want = memCopy[j]
		}
		verifAssert(after.mem[j] == want, "C15: MCOPY copies like an overlap-safe memmove")
	}
}

