//go:build verif

package vm

import (
	"github.com/holiman/uint256"
)

func init() {
	verifHarnesses["VerifHarness_LoadParamBytes"] = VerifHarness_LoadParamBytes
}

// VerifHarness_LoadParamBytes: loadParamBytes against a non-wrapping ABI
// (bytes,bytes) decoding oracle, for every payload up to the bound.
func VerifHarness_LoadParamBytes() {
	max := int(verifParam("max"))
	n := verifU64("len")
	verifAssume(n <= uint64(max))
	in := verifBytes("payload", n, max)
	idx := verifU64("index")
	verifAssume(idx <= 1)

	got, err := loadParamBytes(in, int(idx))
	verifReach("returned")

	headEnd := idx*32 + 32
	if n < headEnd {
		verifReach("short-head")
		verifAssert(err != nil, "reject: head word beyond payload")
		return
	}
	H := new(uint256.Int).SetBytes32(in[idx*32 : headEnd])
	hOk := verifAnd(H.IsUint64(), H.Uint64() <= n-32)
	if !hOk {
		verifReach("bad-offset")
		verifAssert(err != nil, "reject: offset word does not leave room for a length word")
		return
	}
	h := H.Uint64()
	L := new(uint256.Int).SetBytes32(in[h : h+32])
	lOk := verifAnd(L.IsUint64(), L.Uint64() <= n-32-h)
	if !lOk {
		verifReach("bad-length")
		verifAssert(err != nil, "reject: length word exceeds payload")
		return
	}
	verifReach("accepted")
	verifAssert(err == nil, "accept: well-formed parameter")
	l := L.Uint64()
	verifAssert(uint64(len(got)) == l, "accept: decoded length")
	j := verifU64("j")
	verifAssume(j < l)
	verifAssert(got[j] == in[h+32+j], "accept: decoded content")
}
