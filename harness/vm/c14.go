//go:build verif

package vm

import (
	"context"
	"math/big"

	coretypes "github.com/artela-network/aspect-core/types"
	"github.com/ethereum/go-ethereum/common"
	"github.com/holiman/uint256"
)

func init() {
	verifHarnesses["VerifHarness_LoadParamBytes"] = VerifHarness_LoadParamBytes
}

// VerifHarness_LoadParamBytes: loadParamBytes against a non-wrapping ABI
// (bytes,bytes) decoding oracle, for every payload up to the bound.
func VerifHarness_LoadParamBytes() {
	max := int(verifParam("max"))
	n := verifU64("len")
	verifAssume(n <= uint64(max))
	in := verifBytes("payload", n, max)
	idx := verifU64("index")
	verifAssume(idx <= 1)

	got, err := loadParamBytes(in, int(idx))
	verifReach("returned")

	headEnd := idx*32 + 32
	if n < headEnd {
		verifReach("short-head")
		verifAssert(err != nil, "reject: head word beyond payload")
		return
	}
	H := new(uint256.Int).SetBytes32(in[idx*32 : headEnd])
	hOk := verifAnd(H.IsUint64(), H.Uint64() <= n-32)
	if !hOk {
		verifReach("bad-offset")
		verifAssert(err != nil, "reject: offset word does not leave room for a length word")
		return
	}
	h := H.Uint64()
	L := new(uint256.Int).SetBytes32(in[h : h+32])
	lOk := verifAnd(L.IsUint64(), L.Uint64() <= n-32-h)
	if !lOk {
		verifReach("bad-length")
		verifAssert(err != nil, "reject: length word exceeds payload")
		return
	}
	verifReach("accepted")
	verifAssert(err == nil, "accept: well-formed parameter")
	l := L.Uint64()
	verifAssert(uint64(len(got)) == l, "accept: decoded length")
	j := verifU64("j")
	verifAssume(j < l)
	verifAssert(got[j] == in[h+32+j], "accept: decoded content")
}

func init() {
	verifHarnesses["VerifHarness_ContextWriterRun"] = VerifHarness_ContextWriterRun
	verifHarnesses["VerifHarness_AspContextRun"] = VerifHarness_AspContextRun
	verifHarnesses["VerifHarness_UserOpSenderRun"] = VerifHarness_UserOpSenderRun
}

type verifHostCall struct {
	kind  string
	addr  common.Address
	key   string
	value []byte
	hash  common.Hash
}

// verifInstallHost installs recording host callbacks and returns the record.
func verifInstallHost(hostErr error, hostRet []byte, hostAddr common.Address) *[]verifHostCall {
	calls := &[]verifHostCall{}
	coretypes.SetAspectContext = func(ctx context.Context, aspectId common.Address, key string, value []byte) error {
		*calls = append(*calls, verifHostCall{kind: "set", addr: aspectId, key: key, value: value})
		return hostErr
	}
	coretypes.GetAspectContext = func(ctx context.Context, aspectId common.Address, key string) ([]byte, error) {
		*calls = append(*calls, verifHostCall{kind: "get", addr: aspectId, key: key})
		return hostRet, hostErr
	}
	coretypes.JITSenderAspectByContext = func(ctx context.Context, h common.Hash) (common.Address, error) {
		*calls = append(*calls, verifHostCall{kind: "jit", hash: h})
		return hostAddr, hostErr
	}
	return calls
}

// abiBytesAt is the non-wrapping ABI decoding of parameter idx of (bytes,bytes).
func abiBytesAt(in []byte, idx uint64) (ok bool, start, length uint64) {
	n := uint64(len(in))
	if n < idx*32+32 {
		return false, 0, 0
	}
	H := new(uint256.Int).SetBytes32(in[idx*32 : idx*32+32])
	if !verifAnd(H.IsUint64(), H.Uint64() <= n-32) {
		return false, 0, 0
	}
	h := H.Uint64()
	L := new(uint256.Int).SetBytes32(in[h : h+32])
	if !verifAnd(L.IsUint64(), L.Uint64() <= n-32-h) {
		return false, 0, 0
	}
	return true, h + 32, L.Uint64()
}

// VerifHarness_ContextWriterRun: precompile 0x66 body on an arbitrary payload.
func VerifHarness_ContextWriterRun() {
	max := int(verifParam("max"))
	n := verifU64("len")
	verifAssume(n <= uint64(max))
	in := verifBytes("payload", n, max)
	from := verifAddr("from")
	hostErr := verifErrKind(verifIteU64(verifBool("hostfails"), 6, 0))
	calls := verifInstallHost(hostErr, nil, common.Address{})
	withCtx := verifBool("withctx")
	var p PrecompiledContract = &contextWriter{}
	if withCtx {
		p = (&contextWriter{}).CloneWithCtx(&ExecutionContext{from: from, to: common.BytesToAddress([]byte{102}), gas: 1, value: new(big.Int)})
	}
	verifAssert(p.RequiredGas(in) == 5000, "C14: fixed fee")

	out, err := p.Run(verifCtx, in)
	verifReach("returned")
	verifAssert(len(out) == 0, "C14: context write returns no data")

	// the minimal ABI encoding of (bytes,bytes) is two head words and two length words
	ok0, s0, l0 := false, uint64(0), uint64(0)
	if n >= 128 {
		ok0, s0, l0 = abiBytesAt(in, 0)
	}
	ok1, s1, l1 := false, uint64(0), uint64(0)
	if ok0 {
		ok1, s1, l1 = abiBytesAt(in, 1)
	}
	if !(ok0 && ok1) {
		verifReach("malformed")
		verifAssert(len(*calls) == 0, "C14: a malformed payload never reaches the host")
		verifAssert(err != nil, "C14: malformed, truncated or overflowing payloads are rejected with an error")
		return
	}
	if !withCtx {
		verifReach("no-context")
		verifAssert(len(*calls) == 0, "C14: without a caller context nothing is written")
		verifAssert(err != nil, "C14: a context write without caller context is refused")
		return
	}
	verifReach("accepted")
	verifAssert(len(*calls) == 1, "C14: exactly one host write")
	c := (*calls)[0]
	verifAssert(c.kind == "set" && c.addr == from, "C14: write attributed to the calling contract")
	verifAssert(uint64(len(c.key)) == l0 && uint64(len(c.value)) == l1, "C14: key and value lengths")
	j := verifU64("j")
	if verifBool("checkkey") {
		verifAssume(j < l0)
		verifAssert(c.key[j] == in[s0+j], "C14: key content")
	} else {
		verifAssume(j < l1)
		verifAssert(c.value[j] == in[s1+j], "C14: value content")
	}
	verifAssert(err == hostErr, "C14: returns exactly the host's verdict")
}

// VerifHarness_AspContextRun: precompile 0x64 body.
func VerifHarness_AspContextRun() {
	max := int(verifParam("max"))
	n := verifU64("len")
	verifAssume(n <= uint64(max))
	in := verifBytes("payload", n, max)
	hostErr := verifErrKind(verifIteU64(verifBool("hostfails"), 6, 0))
	hostRet := []byte{1, 2, 3}
	calls := verifInstallHost(hostErr, hostRet, common.Address{})
	p := &aspcontext{}
	verifAssert(p.RequiredGas(in) == 5000, "C14: fixed fee")
	out, err := p.Run(verifCtx, in)
	verifReach("returned")
	if n < 20 {
		verifReach("truncated")
		verifAssert(len(*calls) == 0, "C14: a truncated payload never reaches the host")
		verifAssert(err != nil, "C14: malformed, truncated or overflowing payloads are rejected with an error")
		return
	}
	verifReach("accepted")
	verifAssert(len(*calls) == 1, "C14: exactly one host read")
	c := (*calls)[0]
	verifAssert(c.kind == "get" && c.addr == common.BytesToAddress(in[:20]), "C14: host gets the address in the payload")
	verifAssert(uint64(len(c.key)) == n-20, "C14: host gets the key in the payload (length)")
	j := verifU64("j")
	verifAssume(j < n-20)
	verifAssert(c.key[j] == in[20+j], "C14: host gets the key in the payload (content)")
	verifAssert(err == hostErr, "C14: returns the host's error")
	if hostErr == nil {
		verifAssert(verifBytesEq(out, hostRet), "C14: returns exactly what the host returns")
	} else {
		verifAssert(len(out) == 0, "C14: no data on host error")
	}
}

// VerifHarness_UserOpSenderRun: precompile 0x65 body.
func VerifHarness_UserOpSenderRun() {
	max := int(verifParam("max"))
	n := verifU64("len")
	verifAssume(n <= uint64(max))
	in := verifBytes("payload", n, max)
	hostErr := verifErrKind(verifIteU64(verifBool("hostfails"), 6, 0))
	hostAddr := verifAddr("hostaddr")
	calls := verifInstallHost(hostErr, nil, hostAddr)
	p := &userOpSender{}
	verifAssert(p.RequiredGas(in) == 5000, "C14: fixed fee")
	out, err := p.Run(verifCtx, in)
	verifReach("returned")
	if n < 32 {
		verifReach("truncated")
		verifAssert(len(*calls) == 0, "C14: a truncated payload never reaches the host")
		verifAssert(err != nil, "C14: malformed, truncated or overflowing payloads are rejected with an error")
		return
	}
	if n > 32 {
		// longer payloads: outside the claim (the property speaks of the hash contained in the payload)
		return
	}
	verifReach("accepted")
	verifAssert(len(*calls) == 1, "C14: exactly one host query")
	c := (*calls)[0]
	verifAssert(c.kind == "jit" && c.hash == common.BytesToHash(in), "C14: host gets exactly the hash in the payload")
	verifAssert(err == hostErr, "C14: returns the host's error")
	if hostErr == nil {
		want := hostAddr.Hash()
		verifAssert(verifBytesEq(out, want[:]), "C14: returns the 32-byte form of the host's address")
	}
}
