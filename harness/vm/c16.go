//go:build verif

package vm

import (
	"github.com/ethereum/go-ethereum/common"
	"github.com/holiman/uint256"
)

func init() {
	verifHarnesses["VerifHarness_QueryOrder"] = VerifHarness_QueryOrder
	verifHarnesses["VerifHarness_TwoTracers"] = VerifHarness_TwoTracers
}

// VerifHarness_QueryOrder: the list-valued tracer queries evaluated twice on the
// same structure; Go's map iteration order is a free choice of the engine
// (maporder=any), so any dependence on it shows up as two different answers.
func VerifHarness_QueryOrder(which uint64) {
	n := int(verifParam("children"))
	tr := NewTracer()
	acct := verifAddr("acct")
	parentSlot := verifU256("parentslot")
	tid := verifHash("tid")
	err := tr.SaveStateKey(acct, nil, &parentSlot, nil, tid, common.Hash{}, []byte("m"))
	verifAssert(err == nil, "parent registration succeeds")
	keys := make([][]byte, n)
	distinct := 0
	for i := 0; i < n; i++ {
		slot := verifU256("slot")
		keys[i] = verifBytes("indexkey", 1, 1)
		// index keys and slots may repeat: a later registration of a known index or of a known
		// (slot, offset, type) refers to the record kept first
		fresh := true
		for j := 0; j < i; j++ {
			if keys[i][0] == keys[j][0] {
				fresh = false
			}
		}
		if fresh {
			distinct++
		}
		err := tr.SaveStateKey(acct, &parentSlot, &slot, nil, tid, tid, keys[i])
		verifAssert(err == nil, "child registration succeeds")
	}
	k := tr.StateChanges().FindKeyIndices(acct, "m")
	verifAssert(k != nil, "parent found")
	verifReach("queried")
	switch which {
	case 0:
		c1, c2 := k.Children(), k.Children()
		verifAssert(len(c1) == len(c2) && len(c1) == distinct, "C16: Children returns the same number of elements every time")
		for i := range c1 {
			verifAssert(c1[i] == c2[i], "C16: Children returns its elements in the same order every time")
		}
		return
	case 2:
		x1 := tr.StateChanges().IndicesOfChanges(acct, "m")
		x2 := tr.StateChanges().IndicesOfChanges(acct, "m")
		verifAssert(len(x1) == len(x2) && len(x1) == distinct, "C16: IndicesOfChanges returns the same number of elements every time")
		for i := range x1 {
			verifAssert(verifBytesEq(x1[i], x2[i]), "C16: IndicesOfChanges returns its elements in the same order every time")
		}
		return
	}
	i1, i2 := k.ChildrenIndices(), k.ChildrenIndices()
	verifAssert(len(i1) == len(i2), "C16: ChildrenIndices returns the same number of elements every time")
	for i := range i1 {
		verifAssert(verifBytesEq(i1[i], i2[i]), "C16: ChildrenIndices returns its elements in the same order every time")
	}
	// C11: the reported child indices are exactly those registered
	verifAssert(len(i1) == distinct, "C11: child indices reported are exactly those registered (count)")
	for i := 0; i < n; i++ {
		found := false
		for j := range i1 {
			if verifBytesEq(i1[j], keys[i]) {
				found = true
			}
		}
		verifAssert(found, "C11: child indices reported are exactly those registered (membership)")
	}
}

// VerifHarness_TwoTracers: nothing recorded through one EVM instance is visible
// through another.
func VerifHarness_TwoTracers() {
	a, b := newVerifEnv(), newVerifEnv()
	verifAssert(a.evm.Tracer() != b.evm.Tracer(), "C16: every EVM has its own tracer")
	verifAssert(a.evm.Tracer().StateChanges() != b.evm.Tracer().StateChanges() && a.evm.Tracer().CallTree() != b.evm.Tracer().CallTree(), "C16: tracers share no structure")
	acct := verifAddr("acct")
	slot := verifU256("slot")
	tid := verifHash("tid")
	ta := a.evm.Tracer()
	ta.SaveCall(acct, &acct, []byte{1}, uint256.NewInt(1), uint256.NewInt(2))
	verifAssert(ta.SaveStateKey(acct, nil, &slot, nil, tid, common.Hash{}, []byte("v")) == nil, "registration succeeds")
	verifAssert(ta.SaveStateChange(acct, &slot, nil, tid, []byte{9}) == nil, "journal succeeds")
	ta.TransferWithRecord(a.db, acct, acct, verifBig("amount"), verifTransfer)
	verifReach("recorded")
	tb := b.evm.Tracer()
	verifAssert(tb.CallTree().Root() == nil && tb.CallTree().Current() == nil && tb.CallTree().FindCall(0) == nil, "C16: the other instance's call tree is untouched")
	verifAssert(tb.StateChanges().Variable(acct, "v") == nil && tb.StateChanges().Balance(acct) == nil, "C16: the other instance's journal is untouched")
	ch, _ := tb.StateChanges().Slot(acct, &slot, nil, tid)
	verifAssert(ch == nil, "C16: the other instance's index is untouched")
	verifAssert(len(b.db.journal) == 0, "C16: the other instance's state is untouched")
	// NewEVM installs a fresh tracer
	e1 := NewEVM(a.evm.Context, TxContext{}, a.db, a.evm.chainConfig, Config{})
	e2 := NewEVM(a.evm.Context, TxContext{}, a.db, a.evm.chainConfig, Config{})
	verifAssert(e1.Tracer() != e2.Tracer() && e1.Tracer() != ta, "C16: NewEVM installs a fresh tracer")
	verifAssert(e1.Interpreter() != e2.Interpreter(), "C17: NewEVM installs a fresh interpreter")
}
