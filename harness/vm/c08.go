//go:build verif

package vm

import (
	"context"

	"github.com/ethereum/go-ethereum/common"
	"github.com/holiman/uint256"
)

func init() {
	verifHarnesses["VerifHarness_OpCallAlias"] = VerifHarness_OpCallAlias
}

// VerifHarness_OpCallAlias: the CALL instruction handler on a memory whose
// argument and return areas may overlap; afterwards the program overwrites the
// argument area once more.  The recorded call must still show the calldata as it
// was at the moment of the call.
func VerifHarness_OpCallAlias() {
	env := newVerifEnv()
	evm := env.evm
	self := verifAddr("self")
	mem := verifBytes("mem", 64, 64)
	sc := verifScope(self, mem)
	target := verifAddr("target")
	identity := verifBool("target.identity")
	if identity {
		// the identity precompile hands the calldata back as return data
		target = common.BytesToAddress([]byte{4})
	} else {
		verifAssume(target[0] != 0)
	}
	inOff, retOff := verifU64("inoff"), verifU64("retoff")
	verifAssume(inOff <= 32 && retOff <= 32)
	verifAssume(inOff%8 == 0 && retOff%8 == 0) // overlapping, adjacent and disjoint placements
	inOffC, retOffC := verifConcretize(inOff), verifConcretize(retOff)
	// stack (top first): gas, addr, value, inOffset, inSize, retOffset, retSize
	verifPush(sc, *uint256.NewInt(32))
	verifPush(sc, *uint256.NewInt(retOffC))
	verifPush(sc, *uint256.NewInt(32))
	verifPush(sc, *uint256.NewInt(inOffC))
	verifPush(sc, *uint256.NewInt(0))
	verifPush(sc, *new(uint256.Int).SetBytes(target[:]))
	verifPush(sc, *uint256.NewInt(1000))
	evm.callGasTemp = 1000
	snapshot := common.CopyBytes(mem[inOffC : inOffC+32])
	calleeRet := verifBytes("calleeret", 32, 32)
	ran := 0
	verifRunHook = func(in *EVMInterpreter, ctx context.Context, c *Contract, inp []byte, ro bool) ([]byte, error) {
		ran++
		verifAssert(verifBytesEq(inp, snapshot), "C01: the callee receives the calldata")
		return calleeRet, nil
	}
	idx := evm.tracer.callTree.count
	pc := uint64(0)
	_, err := opCall(verifCtx, &pc, env.interp, sc)
	verifReach("returned")
	verifAssert(err == nil, "the handler itself does not fail")
	node := evm.tracer.CallTree().FindCall(idx)
	verifAssert(node != nil, "C08: the call attempt is recorded")
	retAtReturn := common.CopyBytes(node.Ret)
	// later stores of the program into the argument area and the return area
	later := verifBytes("later", 32, 32)
	sc.Memory.Set(inOffC, 32, later)
	sc.Memory.Set(retOffC, 32, verifBytes("later2", 32, 32))
	verifAssert(verifBytesEq(node.Ret, retAtReturn), "C08: recorded return data is not altered by later memory writes")
	if identity {
		verifReach("identity")
		verifAssert(verifBytesEq(node.Ret, snapshot), "C08: recorded return data is what was handed back")
	}
	if ran == 1 {
		verifReach("ran")
	}
	verifAssert(verifBytesEq(node.Data, snapshot), "C08: recorded calldata is what it was at the moment of the call")
	if ran == 1 {
		verifAssert(verifBytesEq(node.Ret, calleeRet), "C08: recorded return data is what was handed back")
	}
}
