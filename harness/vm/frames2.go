//go:build verif

package vm

import (
	"context"
	"math/big"

	"github.com/artela-network/aspect-core/djpm"
	coretypes "github.com/artela-network/aspect-core/types"
	"github.com/ethereum/go-ethereum/common"
	"github.com/ethereum/go-ethereum/params"
	"github.com/holiman/uint256"
	"google.golang.org/protobuf/proto"
)

func init() {
	verifHarnesses["VerifHarness_FrameOther"] = VerifHarness_FrameOther
	verifHarnesses["VerifHarness_FrameCreate"] = VerifHarness_FrameCreate
	verifHarnesses["VerifHarness_PrecompileViaFrame"] = VerifHarness_PrecompileViaFrame
}

func verifNoAspects(rec *verifRecorder) {
	djpm.VerifSetAspect(&verifProvider{bound: true})
	djpm.VerifRunAspectHook = func(ctx context.Context, method coretypes.PointCut, g uint64, block int64, from,
		contractAddr common.Address, in []byte, val *big.Int, req proto.Message,
		aspects []*coretypes.AspectCode, lg coretypes.AspectLogger) *coretypes.AspectExecutionResult {
		rec.add(verifLogEntry{kind: "JP", from: from, to: contractAddr, gas: g})
		return &coretypes.AspectExecutionResult{Gas: g}
	}
}

// VerifHarness_FrameOther: one CALLCODE (0), DELEGATECALL (1) or STATICCALL (2) frame.
func VerifHarness_FrameOther(kind uint64) {
	env := newVerifEnv()
	rec := &verifRecorder{}
	evm := env.evm
	tr := evm.tracer
	evm.IsExecuteJP = verifBool("jp.on")
	debug := verifBool("debug")
	if debug {
		evm.Config.Tracer = &verifLogger{rec}
	}
	verifNoAspects(rec)
	depth := verifU64("depth")
	verifAssume(depth <= 1026)
	evm.depth = int(depth)

	grand, callerAddr, addr := verifAddr("grandparent"), verifAddr("caller"), verifAddr("addr")
	verifAssume(addr[0] != 0)
	parentValue := verifBig("parentvalue")
	caller := NewContract(AccountRef(grand), AccountRef(callerAddr), parentValue, 1)
	value := verifBig("value")
	gas := verifU64("gas")
	inLen := verifU64("inlen")
	verifAssume(inLen <= 8)
	input := verifBytes("input", inLen, 8)
	env.db.SetState(callerAddr, common.Hash{1}, common.Hash{2})
	entryLen := len(env.db.journal)
	tr.SaveCall(grand, &grand, nil, uint256.NewInt(0), uint256.NewInt(0))
	tr.SaveCall(grand, &callerAddr, nil, uint256.NewInt(0), uint256.NewInt(0))
	treeCount, cursor := tr.callTree.count, tr.callTree.current

	calleeKind := verifU64("callee.err")
	verifAssume(calleeKind <= 3)
	var runLeft uint64
	ran := 0
	var seen *Contract
	var seenRO bool
	verifRunHook = func(in *EVMInterpreter, ctx context.Context, contract *Contract, inp []byte, ro bool) ([]byte, error) {
		ran++
		seen, seenRO = contract, ro
		verifAssert(tr.CurrentCallIndex() == cursor.Index, "C10: a code/delegate/static frame journals under the enclosing CALL's index")
		env.db.SetState(contract.Address(), common.Hash{3}, common.Hash{4})
		used := verifU64("callee.used")
		verifAssume(used <= contract.Gas)
		contract.Gas -= used
		runLeft = contract.Gas
		return []byte{0xa3}, verifErrKind(calleeKind)
	}
	var ret []byte
	var left uint64
	var err error
	switch kind {
	case 0:
		ret, left, err = evm.CallCode(verifCtx, caller, addr, input, gas, value)
	case 1:
		ret, left, err = evm.DelegateCall(verifCtx, caller, addr, input, gas)
	default:
		ret, left, err = evm.StaticCall(verifCtx, caller, addr, input, gas)
	}
	_ = ret
	verifReach("returned")

	if err != nil {
		verifReach("failed")
		verifAssert(len(env.db.journal) == entryLen, "C04: every effect of a failed frame is rolled back")
	} else {
		verifAssert(len(env.db.journal) >= entryLen, "C04: effects made before the frame are preserved")
	}
	verifAssert(left <= gas, "C06: a frame never returns more gas than it was given")
	if err != nil && !verifIsRevert(err) && ran == 1 {
		verifAssert(left == 0, "C06: a non-revert failure forfeits the frame's gas")
	}
	if ran == 1 && (err == nil || verifIsRevert(err)) {
		verifAssert(left == runLeft, "C06: the caller gets back what the callee left")
	}
	verifAssert(rec.count("JP") == 0, "C05: only message calls that run a contract's own code fire join points")
	verifAssert(tr.callTree.count == treeCount && tr.callTree.current == cursor, "C07: only CALL and CREATE are recorded in the call tree")
	verifAssert(tr.callTree.current == cursor && evm.depth == int(depth), "C03: cursor and depth are back to rest on every exit of the frame")
	if ran == 1 {
		verifReach("ran")
		switch kind {
		case 0:
			verifAssert(seen.Address() == callerAddr && seen.CallerAddress == callerAddr, "C10: CALLCODE executes on the caller's storage")
		case 1:
			verifAssert(seen.Address() == callerAddr && seen.CallerAddress == grand, "C10: DELEGATECALL executes on the caller's storage with the caller's caller")
			verifAssert(seen.value == parentValue, "C01: DELEGATECALL inherits the value")
		default:
			verifAssert(seen.Address() == addr && seen.CallerAddress == callerAddr, "C10: STATICCALL executes on the callee's storage")
			verifAssert(seenRO, "C01: STATICCALL runs read-only")
		}
		verifAssert(seen.CodeAddr != nil && *seen.CodeAddr == addr, "C01: code taken from the target")
	}
	if debug {
		verifAssert(rec.count("Enter") == rec.count("Exit") && rec.count("Start") == 0 && rec.count("End") == 0, "C18: enter/exit balanced")
	}
}

// VerifHarness_FrameCreate: one CREATE/CREATE2 frame through the real create routine.
func VerifHarness_FrameCreate() {
	env := newVerifEnv()
	rec := &verifRecorder{}
	evm := env.evm
	tr := evm.tracer
	evm.IsExecuteJP = verifBool("jp.on")
	debug := verifBool("debug")
	if debug {
		evm.Config.Tracer = &verifLogger{rec}
	}
	verifNoAspects(rec)
	depth := verifU64("depth")
	verifAssume(depth <= 1026)
	evm.depth = int(depth)
	callerAddr, newAddr := verifAddr("caller"), verifAddr("newaddr")
	value := verifBig("value")
	gas := verifU64("gas")
	codeLen := verifU64("codelen")
	verifAssume(codeLen <= 8)
	code := verifBytes("initcode", codeLen, 8)
	codeCopy := common.CopyBytes(code)
	typ := CREATE
	if verifBool("create2") {
		typ = CREATE2
	}
	env.db.SetState(callerAddr, common.Hash{1}, common.Hash{2})
	entryLen := len(env.db.journal)
	outer := verifBool("outer")
	if outer {
		// two enclosing nodes: the issuing frame has index 1, its parent index 0 (which is also
		// what an empty cursor reports), so a cursor left one level too high changes the stamp
		tr.SaveCall(callerAddr, &callerAddr, nil, uint256.NewInt(0), uint256.NewInt(0))
		tr.SaveCall(callerAddr, &callerAddr, nil, uint256.NewInt(0), uint256.NewInt(0))
	}
	expectedIndex, cursor := tr.callTree.count, tr.callTree.current
	stampBefore := tr.CurrentCallIndex()

	calleeKind := verifU64("callee.err")
	verifAssume(calleeKind <= 3)
	retLen := verifU64("retlen")
	verifAssume(retLen <= 4)
	deployed := verifBytes("deployed", retLen, 4)
	ran := 0
	var runLeft uint64
	verifRunHook = func(in *EVMInterpreter, ctx context.Context, contract *Contract, inp []byte, ro bool) ([]byte, error) {
		ran++
		verifAssert(contract.Address() == newAddr && contract.CallerAddress == callerAddr, "C10: creation code runs on the new contract's storage")
		verifAssert(tr.CurrentCallIndex() == expectedIndex, "C10: creation code journals under the CREATE's own index")
		verifAssert(env.db.transfers == 1, "C13: the endowment is transferred before the init code runs")
		verifAssert(len(inp) == 0 && !ro, "C01: init code runs without calldata, writable")
		env.db.SetState(contract.Address(), common.Hash{3}, common.Hash{4})
		used := verifU64("callee.used")
		verifAssume(used <= contract.Gas)
		contract.Gas -= used
		runLeft = contract.Gas
		return deployed, verifErrKind(calleeKind)
	}
	ret, addrOut, left, err := evm.create(verifCtx, AccountRef(callerAddr), &codeAndHash{code: code}, gas, value, newAddr, typ)
	verifReach("returned")

	// the creator's nonce bump and the access-list entry are kept by the protocol even on failure
	kept := entryLen
	for i := entryLen; i < len(env.db.journal) && i < entryLen+2; i++ {
		k := env.db.journal[i].kind
		if (i == entryLen && k == "SetNonce") || (i == entryLen+1 && k == "AddAddressToAccessList") {
			kept = i + 1
		}
	}
	if err != nil {
		verifReach("failed")
		verifAssert(len(env.db.journal) == kept, "C04: every effect of a failed creation is rolled back (nonce bump and access-list entry excepted)")
	} else {
		verifReach("created")
		verifAssert(len(env.db.journal) > kept, "C04: a successful creation keeps its effects")
		verifAssert(addrOut == newAddr, "C01: returns the new address")
		last := env.db.journal[len(env.db.journal)-1]
		verifAssert(last.kind == "SetCode" && last.addr == newAddr && verifBytesEq(last.data, deployed), "C01: deployed code is what the init code returned")
	}
	verifAssert(left <= gas, "C06: a frame never returns more gas than it was given")
	if ran == 1 && err != nil && !verifIsRevert(err) {
		verifAssert(left == 0, "C06: a non-revert failure forfeits the frame's gas")
	}
	if ran == 1 && verifIsRevert(err) {
		verifAssert(left == runLeft, "C06: a revert keeps the remaining gas")
	}
	if ran == 1 && err == nil {
		verifAssert(left == runLeft-uint64(len(ret))*params.CreateDataGas, "C02: code deposit is charged per byte")
	}
	verifAssert(rec.count("JP") == 0, "C05: creations fire no contract-call join point")

	verifAssert(tr.CurrentCallIndex() == stampBefore, "C10: after the creation returns, entries are attributed to the issuing frame again")
	ct := tr.CallTree()
	verifAssert(ct.count == expectedIndex+1 && ct.Current() == cursor, "C07: one node per creation attempt, cursor restored")
	verifAssert(ct.Current() == cursor && evm.depth == int(depth), "C03: cursor and depth are back to rest on every exit of the frame")
	node := ct.FindCall(expectedIndex)
	verifAssert(node != nil && node.Index == expectedIndex && node.Parent == cursor, "C07: node linked under the issuing frame")
	verifAssert(node.From == callerAddr && node.To == nil, "C08: creator recorded, no target")
	verifAssert(node.Value.ToBig().Cmp(value) == 0 && node.Gas.Uint64() == gas, "C08: value and supplied gas recorded")
	verifAssert(verifBytesEq(node.Data, codeCopy), "C08: init code recorded")
	verifAssert(verifBytesEq(node.Ret, ret) && node.Err == err && node.RemainingGas == left, "C08: outcome recorded as handed back")
	verifAssert(env.db.transfers <= 1, "C13: at most one transfer per frame")
	if ran == 1 {
		verifAssert(env.db.transfers == 1, "C13: exactly one transfer when the init code ran")
	}
	if debug {
		verifAssert(rec.count("Start") == rec.count("End") && rec.count("Enter") == rec.count("Exit"), "C18: start/end and enter/exit are balanced")
	}
}

// VerifHarness_PrecompileViaFrame: the Artela precompiles (and one standard one)
// reached through each call kind with an arbitrary payload.
// kind: 0 CALL, 1 CALLCODE, 2 DELEGATECALL, 3 STATICCALL; which: precompile address byte.
func VerifHarness_PrecompileViaFrame(kind, which uint64) {
	max := int(verifParam("max"))
	env := newVerifEnv()
	evm := env.evm
	berlin := verifBool("berlin")
	evm.chainRules = verifRules(berlin)
	rec := &verifRecorder{}
	verifNoAspects(rec)
	evm.IsExecuteJP = true
	grand, callerAddr := verifAddr("grandparent"), verifAddr("caller")
	caller := NewContract(AccountRef(grand), AccountRef(callerAddr), new(big.Int), 1)
	addr := common.BytesToAddress([]byte{byte(which)})
	gas := verifU64("gas")
	n := verifU64("len")
	verifAssume(n <= uint64(max))
	input := verifBytes("payload", n, max)
	hostErr := verifErrKind(verifIteU64(verifBool("hostfails"), 6, 0))
	calls := verifInstallHost(hostErr, []byte{9}, common.Address{7})
	ran := 0
	verifRunHook = func(in *EVMInterpreter, ctx context.Context, contract *Contract, inp []byte, ro bool) ([]byte, error) {
		ran++
		return nil, nil
	}
	if which == 102 && berlin && verifBool("priorwrite") {
		// an earlier, unrelated contract wrote a context value through a plain CALL
		verifReach("prior-write")
		other := common.Address{0xaa}
		_, _, perr := evm.Call(verifCtx, AccountRef(other), addr, make([]byte, 128), 10000, new(big.Int))
		verifAssert(perr == hostErr, "C14: a well-formed context write through CALL returns the host's verdict")
		*calls = (*calls)[:0]
	}
	entryLen := len(env.db.journal)
	var left uint64
	var err error
	switch kind {
	case 0:
		_, left, err = evm.Call(verifCtx, caller, addr, input, gas, verifBig("value"))
	case 1:
		_, left, err = evm.CallCode(verifCtx, caller, addr, input, gas, new(big.Int))
	case 2:
		_, left, err = evm.DelegateCall(verifCtx, caller, addr, input, gas)
	default:
		_, left, err = evm.StaticCall(verifCtx, caller, addr, input, gas)
	}
	verifReach("returned")
	verifAssert(left <= gas, "C06: a frame never returns more gas than it was given")
	if err == ErrDepth || err == ErrInsufficientBalance {
		// refused before the frame was entered: gas handed back untouched
		verifAssert(left == gas && len(*calls) == 0, "C06: a refused call hands the gas back")
		return
	}
	if !berlin {
		verifReach("pre-berlin")
		verifAssert(len(*calls) == 0, "C14: before Berlin the Artela addresses are not precompiles")
		return
	}
	verifAssert(ran == 0, "C14: from Berlin the address is a precompile, no code runs")
	verifAssert(rec.count("JP") == 0, "C05: precompiles fire no join point")
	if gas < 5000 {
		verifReach("underpaid")
		verifAssert(err == ErrOutOfGas && left == 0 && len(*calls) == 0, "C14: the fixed fee is charged before running")
		return
	}
	if err != nil {
		verifAssert(left == 0, "C06: a failed precompile call forfeits the gas")
		verifAssert(len(env.db.journal) == entryLen, "C04: a failed precompile call leaves no effect")
	} else {
		verifAssert(left == gas-5000, "C14: exactly the fixed fee is charged")
	}
	for _, c := range *calls {
		if c.kind == "set" {
			verifReach("host-write")
			verifAssert(kind == 0, "C14: a context write happens only on the CALL path")
			verifAssert(c.addr == callerAddr, "C14: the write is attributed to the contract whose call reached the precompile")
		}
	}
	if which == 102 && kind != 0 {
		verifAssert(err != nil && len(*calls) == 0, "C14: context writes through code/delegate/static calls are refused")
	}
}
