//go:build verif

package vm

// Environment stubs shared by the symbolic and the native run.

import (
	"context"
	"encoding/binary"
	"errors"
	"math/big"

	coretypes "github.com/artela-network/aspect-core/types"
	ethvm "github.com/ethereum/go-ethereum/core/vm"
	"google.golang.org/protobuf/proto"

	"github.com/ethereum/go-ethereum/common"
	"github.com/ethereum/go-ethereum/core/types"
	"github.com/ethereum/go-ethereum/crypto"
	"github.com/ethereum/go-ethereum/params"
	"github.com/holiman/uint256"
)

// verifEvent is one world-state mutation; the world is the list of events.
type verifEvent struct {
	kind string
	addr common.Address
	key  common.Hash
	val  common.Hash
	num  uint64
	data []byte
}

// verifStateDB is an event-journal world: mutators append events, Snapshot
// returns the journal length, RevertToSnapshot truncates.  Readers return
// arbitrary values that are functions of (journal length, arguments).
type verifStateDB struct {
	journal   []verifEvent
	reads     uint64
	snaps     int
	reverts   []int
	codes     map[common.Address][]byte
	codeMax   int
	transfers int
}

func newVerifStateDB() *verifStateDB {
	return &verifStateDB{codes: map[common.Address][]byte{}, codeMax: 4}
}

func (s *verifStateDB) epoch() []byte {
	var b [8]byte
	binary.BigEndian.PutUint64(b[:], uint64(len(s.journal)))
	return b[:]
}
func (s *verifStateDB) emit(e verifEvent) { s.journal = append(s.journal, e) }

func (s *verifStateDB) CreateAccount(a common.Address) { s.emit(verifEvent{kind: "CreateAccount", addr: a}) }
func (s *verifStateDB) SubBalance(a common.Address, v *big.Int) {
	s.emit(verifEvent{kind: "SubBalance", addr: a, val: common.BigToHash(v)})
}
func (s *verifStateDB) AddBalance(a common.Address, v *big.Int) {
	s.emit(verifEvent{kind: "AddBalance", addr: a, val: common.BigToHash(v)})
}
func (s *verifStateDB) GetBalance(a common.Address) *big.Int {
	s.reads++
	h := verifUF32("GetBalance", s.epoch(), a[:])
	return new(big.Int).SetBytes(h[:])
}
func (s *verifStateDB) GetNonce(a common.Address) uint64 {
	s.reads++
	return verifUFU64("GetNonce", s.epoch(), a[:])
}
func (s *verifStateDB) SetNonce(a common.Address, n uint64) {
	s.emit(verifEvent{kind: "SetNonce", addr: a, num: n})
}
func (s *verifStateDB) GetCodeHash(a common.Address) common.Hash {
	s.reads++
	return verifUF32("GetCodeHash", s.epoch(), a[:])
}
func (s *verifStateDB) GetCode(a common.Address) []byte {
	s.reads++
	if c, ok := s.codes[a]; ok {
		return c
	}
	n := verifU64("codelen")
	verifAssume(n <= uint64(s.codeMax))
	c := verifBytes("code", n, s.codeMax)
	s.codes[a] = c
	return c
}
func (s *verifStateDB) SetCode(a common.Address, c []byte) {
	s.emit(verifEvent{kind: "SetCode", addr: a, data: c})
}
func (s *verifStateDB) GetCodeSize(a common.Address) int { return len(s.GetCode(a)) }
func (s *verifStateDB) AddRefund(g uint64)              { s.emit(verifEvent{kind: "AddRefund", num: g}) }
func (s *verifStateDB) SubRefund(g uint64)              { s.emit(verifEvent{kind: "SubRefund", num: g}) }
func (s *verifStateDB) GetRefund() uint64               { return verifUFU64("GetRefund", s.epoch()) }
func (s *verifStateDB) GetCommittedState(a common.Address, k common.Hash) common.Hash {
	s.reads++
	return verifUF32("GetCommittedState", a[:], k[:])
}
func (s *verifStateDB) GetState(a common.Address, k common.Hash) common.Hash {
	s.reads++
	return verifUF32("GetState", s.epoch(), a[:], k[:])
}
func (s *verifStateDB) SetState(a common.Address, k, v common.Hash) {
	s.emit(verifEvent{kind: "SetState", addr: a, key: k, val: v})
}
func (s *verifStateDB) GetTransientState(a common.Address, k common.Hash) common.Hash {
	s.reads++
	return verifUF32("GetTransientState", s.epoch(), a[:], k[:])
}
func (s *verifStateDB) SetTransientState(a common.Address, k, v common.Hash) {
	s.emit(verifEvent{kind: "SetTransientState", addr: a, key: k, val: v})
}
func (s *verifStateDB) Suicide(a common.Address) bool {
	s.emit(verifEvent{kind: "Suicide", addr: a})
	return verifUFBool("Suicide", s.epoch(), a[:])
}
func (s *verifStateDB) HasSuicided(a common.Address) bool { return verifUFBool("HasSuicided", s.epoch(), a[:]) }
func (s *verifStateDB) Exist(a common.Address) bool       { return verifUFBool("Exist", s.epoch(), a[:]) }
func (s *verifStateDB) Empty(a common.Address) bool       { return verifUFBool("Empty", s.epoch(), a[:]) }
func (s *verifStateDB) AddressInAccessList(a common.Address) bool {
	return verifUFBool("AddressInAccessList", s.epoch(), a[:])
}
func (s *verifStateDB) SlotInAccessList(a common.Address, k common.Hash) (bool, bool) {
	// host invariant (EIP-2929): an address whose code executes is in the access list
	return true, verifUFBool("SlotInAccessListS", s.epoch(), a[:], k[:])
}
func (s *verifStateDB) AddAddressToAccessList(a common.Address) {
	s.emit(verifEvent{kind: "AddAddressToAccessList", addr: a})
}
func (s *verifStateDB) AddSlotToAccessList(a common.Address, k common.Hash) {
	s.emit(verifEvent{kind: "AddSlotToAccessList", addr: a, key: k})
}
func (s *verifStateDB) Prepare(rules params.Rules, sender, coinbase common.Address, dest *common.Address, precompiles []common.Address, txAccesses types.AccessList) {
}
func (s *verifStateDB) RevertToSnapshot(n int) {
	s.reverts = append(s.reverts, n)
	s.journal = s.journal[:n]
}
func (s *verifStateDB) Snapshot() int {
	s.snaps++
	return len(s.journal)
}
func (s *verifStateDB) AddLog(l *types.Log) {
	s.emit(verifEvent{kind: "AddLog", addr: l.Address, data: l.Data, num: uint64(len(l.Topics))})
}
func (s *verifStateDB) AddPreimage(h common.Hash, b []byte) {
	s.emit(verifEvent{kind: "AddPreimage", key: h, data: b})
}

// verifEnv is a minimal initialised host.
type verifEnv struct {
	db     *verifStateDB
	evm    *EVM
	interp *EVMInterpreter
}

func verifRules(berlin bool) params.Rules {
	return params.Rules{ChainID: big.NewInt(1), IsHomestead: true, IsEIP150: true, IsEIP155: true, IsEIP158: true,
		IsByzantium: true, IsConstantinople: true, IsPetersburg: true, IsIstanbul: true, IsBerlin: berlin, IsLondon: berlin}
}

// newVerifEnv builds an EVM directly (no NewEVM) on the event-journal world.
func newVerifEnv() *verifEnv {
	db := newVerifStateDB()
	evm := &EVM{
		Context: BlockContext{
			CanTransfer: verifCanTransfer,
			Transfer:    verifTransfer,
			BlockNumber: big.NewInt(100),
			Time:        1000,
			Difficulty:  big.NewInt(0),
			BaseFee:     big.NewInt(0),
		},
		StateDB:     db,
		chainConfig: &params.ChainConfig{ChainID: big.NewInt(1)},
		chainRules:  verifRules(true),
		tracer:      NewTracer(),
		IsExecuteJP: false,
	}
	in := &EVMInterpreter{evm: evm, table: &berlinInstructionSet, tracer: evm.tracer}
	evm.interpreter = in
	return &verifEnv{db: db, evm: evm, interp: in}
}

func verifCanTransfer(db StateDB, a common.Address, v *big.Int) bool {
	return verifUFBool("CanTransfer", a[:], common.BigToHash(v).Bytes())
}

func verifTransfer(db StateDB, from, to common.Address, v *big.Int) {
	s := db.(*verifStateDB)
	s.transfers++
	s.emit(verifEvent{kind: "Transfer", addr: from, key: common.BytesToHash(to[:]), val: common.BigToHash(v)})
}

// verifScope builds a frame scope executing as contract `self` with the given memory.
func verifScope(self common.Address, mem []byte) *ScopeContext {
	c := NewContract(AccountRef(self), AccountRef(self), new(big.Int), 1000000)
	m := NewMemory()
	m.store = mem
	return &ScopeContext{Memory: m, Stack: newstack(), Contract: c}
}

func verifPush(sc *ScopeContext, v uint256.Int) { sc.Stack.push(&v) }

var verifCtx context.Context

// verifKeccakState stands in for the sponge: the engine redirects
// crypto.NewKeccakState here so that hashing is an uninterpreted function of the
// content; natively verifKeccak is the real Keccak-256.
type verifKeccakState struct{ buf []byte }

func (k *verifKeccakState) Write(p []byte) (int, error) {
	k.buf = append(k.buf, p...)
	return len(p), nil
}
func (k *verifKeccakState) Sum(b []byte) []byte {
	h := verifKeccak(k.buf)
	return append(b, h[:]...)
}
func (k *verifKeccakState) Reset()         { k.buf = nil }
func (k *verifKeccakState) Size() int      { return 32 }
func (k *verifKeccakState) BlockSize() int { return 136 }
func (k *verifKeccakState) Read(out []byte) (int, error) {
	h := verifKeccak(k.buf)
	return copy(out, h[:]), nil
}
func verifNewKeccakState() crypto.KeccakState { return &verifKeccakState{} }

// ---------------------------------------------------------------- cut points

// verifRunHook replaces the interpreter loop inside frame harnesses (the
// loader renames the real Run to verifRealRun on every run).
var verifRunHook func(in *EVMInterpreter, ctx context.Context, contract *Contract, input []byte, readOnly bool) ([]byte, error)

func (in *EVMInterpreter) Run(ctx context.Context, contract *Contract, input []byte, readOnly bool) (ret []byte, err error) {
	if verifRunHook != nil {
		return verifRunHook(in, ctx, contract, input, readOnly)
	}
	return in.verifRealRun(ctx, contract, input, readOnly)
}

// verifLogEntry is one observed callback (join point, interpreter run, debug tracer event).
type verifLogEntry struct {
	kind   string
	from   common.Address
	to     common.Address
	input  []byte
	gas    uint64
	value  *big.Int
	index  uint64
	ret    []byte
	errTxt string
	err    error
	block  uint64
	ro     bool
	depth  int
}

type verifRecorder struct {
	log []verifLogEntry
}

func (r *verifRecorder) add(e verifLogEntry) { r.log = append(r.log, e) }
func (r *verifRecorder) count(kind string) int {
	n := 0
	for _, e := range r.log {
		if e.kind == kind {
			n++
		}
	}
	return n
}

// verifLogger implements EVMLogger and types.AspectLogger by recording.
type verifLogger struct{ rec *verifRecorder }

func (l *verifLogger) CaptureTxStart(gasLimit uint64) {}
func (l *verifLogger) CaptureTxEnd(restGas uint64)    {}
func (l *verifLogger) CaptureStart(env *EVM, from common.Address, to common.Address, create bool, input []byte, gas uint64, value *big.Int) {
	l.rec.add(verifLogEntry{kind: "Start", from: from, to: to, input: input, gas: gas, value: value, ro: create})
}
func (l *verifLogger) CaptureEnd(output []byte, gasUsed uint64, err error) {
	l.rec.add(verifLogEntry{kind: "End", ret: output, gas: gasUsed, err: err})
}
func (l *verifLogger) CaptureEnter(typ OpCode, from common.Address, to common.Address, input []byte, gas uint64, value *big.Int) {
	l.rec.add(verifLogEntry{kind: "Enter", from: from, to: to, input: input, gas: gas, value: value, index: uint64(typ)})
}
func (l *verifLogger) CaptureExit(output []byte, gasUsed uint64, err error) {
	l.rec.add(verifLogEntry{kind: "Exit", ret: output, gas: gasUsed, err: err})
}
func (l *verifLogger) CaptureState(pc uint64, op OpCode, gas, cost uint64, scope *ScopeContext, rData []byte, depth int, err error) {
	l.rec.add(verifLogEntry{kind: "State", index: pc, gas: gas, block: cost, depth: depth, err: err, ret: rData, ro: op == 0})
}
func (l *verifLogger) CaptureFault(pc uint64, op OpCode, gas, cost uint64, scope *ScopeContext, depth int, err error) {
	l.rec.add(verifLogEntry{kind: "Fault", index: pc, gas: gas, block: cost, depth: depth, err: err})
}
func (l *verifLogger) CaptureAspectEnter(joinpoint coretypes.JoinPointRunType, from, to, aspectId common.Address, input []byte, gas uint64, value *big.Int, execCtx proto.Message) {
	l.rec.add(verifLogEntry{kind: "AspectEnter", from: from, to: to, input: input, gas: gas, value: value})
}
func (l *verifLogger) CaptureAspectExit(joinpoint coretypes.JoinPointRunType, result *coretypes.AspectExecutionResult) {
	l.rec.add(verifLogEntry{kind: "AspectExit", gas: result.Gas, err: result.Err, ret: result.Ret})
}

// verifProvider is the host's Aspect binding lookup.
type verifProvider struct {
	bound  bool
	failed error
}

func (p *verifProvider) GetTxBondAspects(ctx context.Context, a common.Address, pc coretypes.PointCut) ([]*coretypes.AspectCode, error) {
	if p.failed != nil {
		return nil, p.failed
	}
	if !p.bound {
		return nil, nil
	}
	return []*coretypes.AspectCode{{AspectId: "0x01", Version: 1}}, nil
}
func (p *verifProvider) GetAccountVerifiers(ctx context.Context, a common.Address) ([]*coretypes.AspectCode, error) {
	return nil, nil
}
func (p *verifProvider) GetLatestBlock() int64 { return 0 }

// verifErrKind maps a small symbolic choice to an error value.
// 0 nil, 1 ErrExecutionReverted, 2 ErrOutOfGas, 3 another EVM sentinel,
// 4 fresh error "out of gas", 5 fresh error "execution reverted", 6 fresh error with other text.
func verifErrKind(k uint64) error {
	switch k {
	case 0:
		return nil
	case 1:
		return ErrExecutionReverted
	case 2:
		return ErrOutOfGas
	case 3:
		return ErrWriteProtection
	case 4:
		return errors.New("out of gas")
	case 5:
		return errors.New("execution reverted")
	}
	return errors.New("aspect failed")
}

// verifStackHook / verifMemoryHook let a step harness start the real
// interpreter loop from an arbitrary operand stack and memory (the loader
// rewrites the two constructor calls in Run to these functions).
var verifStackHook func() *Stack
var verifMemoryHook func() *Memory

// verifReturnDataHook: the return-data buffer a frame starts its first instruction with
// (the real code starts with an empty one; a step harness starts "in the middle" of a frame).
var verifReturnDataHook func() []byte

func verifInitialReturnData() []byte {
	if verifReturnDataHook != nil {
		return verifReturnDataHook()
	}
	return nil
}
func verifNewStack() *Stack {
	if verifStackHook != nil {
		return verifStackHook()
	}
	return newstack()
}
func verifNewMemory() *Memory {
	if verifMemoryHook != nil {
		return verifMemoryHook()
	}
	return NewMemory()
}

// verifSnapLogger records, for every per-instruction callback, a copy of the
// operand stack and memory as the interpreter presents them.
type verifSnap struct {
	pc    uint64
	op    OpCode
	gas   uint64
	cost  uint64
	stack []uint256.Int
	mem   []byte
	err   error
}
type verifSnapLogger struct {
	verifLogger
	snaps []verifSnap
}

func (l *verifSnapLogger) CaptureState(pc uint64, op OpCode, gas, cost uint64, scope *ScopeContext, rData []byte, depth int, err error) {
	st := make([]uint256.Int, len(scope.Stack.data))
	copy(st, scope.Stack.data)
	l.snaps = append(l.snaps, verifSnap{pc: pc, op: op, gas: gas, cost: cost, stack: st, mem: common.CopyBytes(scope.Memory.store), err: err})
}

// verifFrameHook replaces the six frame routines when a step harness only wants
// the opcode handler's glue (the routines themselves have their own harnesses).
var verifFrameHook func(kind OpCode, caller ContractRef, addr common.Address, input []byte, gas uint64, value *big.Int) ([]byte, common.Address, uint64, error)

func (evm *EVM) Call(ctx context.Context, caller ethvm.ContractRef, addr common.Address, input []byte, gas uint64, value *big.Int) (ret []byte, leftOverGas uint64, err error) {
	if verifFrameHook != nil {
		ret, _, leftOverGas, err = verifFrameHook(CALL, caller, addr, input, gas, value)
		return
	}
	return evm.verifRealCall(ctx, caller, addr, input, gas, value)
}
func (evm *EVM) CallCode(ctx context.Context, caller ContractRef, addr common.Address, input []byte, gas uint64, value *big.Int) (ret []byte, leftOverGas uint64, err error) {
	if verifFrameHook != nil {
		ret, _, leftOverGas, err = verifFrameHook(CALLCODE, caller, addr, input, gas, value)
		return
	}
	return evm.verifRealCallCode(ctx, caller, addr, input, gas, value)
}
func (evm *EVM) DelegateCall(ctx context.Context, caller ContractRef, addr common.Address, input []byte, gas uint64) (ret []byte, leftOverGas uint64, err error) {
	if verifFrameHook != nil {
		ret, _, leftOverGas, err = verifFrameHook(DELEGATECALL, caller, addr, input, gas, nil)
		return
	}
	return evm.verifRealDelegateCall(ctx, caller, addr, input, gas)
}
func (evm *EVM) StaticCall(ctx context.Context, caller ContractRef, addr common.Address, input []byte, gas uint64) (ret []byte, leftOverGas uint64, err error) {
	if verifFrameHook != nil {
		ret, _, leftOverGas, err = verifFrameHook(STATICCALL, caller, addr, input, gas, nil)
		return
	}
	return evm.verifRealStaticCall(ctx, caller, addr, input, gas)
}
func (evm *EVM) Create(ctx context.Context, caller ContractRef, code []byte, gas uint64, value *big.Int) (ret []byte, contractAddr common.Address, leftOverGas uint64, err error) {
	if verifFrameHook != nil {
		return verifFrameHook(CREATE, caller, common.Address{}, code, gas, value)
	}
	return evm.verifRealCreate(ctx, caller, code, gas, value)
}
func (evm *EVM) Create2(ctx context.Context, caller ContractRef, code []byte, gas uint64, endowment *big.Int, salt *uint256.Int) (ret []byte, contractAddr common.Address, leftOverGas uint64, err error) {
	if verifFrameHook != nil {
		return verifFrameHook(CREATE2, caller, common.Address{}, code, gas, endowment)
	}
	return evm.verifRealCreate2(ctx, caller, code, gas, endowment, salt)
}
