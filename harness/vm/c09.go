//go:build verif

package vm

import (
	"github.com/ethereum/go-ethereum/common"
	"github.com/holiman/uint256"
)

func init() {
	verifHarnesses["VerifHarness_VVJNAL"] = VerifHarness_VVJNAL
}

// VerifHarness_VVJNAL: the value-journal instruction on an arbitrary storage
// word, slot, offset, width and type id, against Solidity's packed layout.
func VerifHarness_VVJNAL() {
	env := newVerifEnv()
	self := verifAddr("self")
	memLen := verifU64("memlen")
	verifAssume(memLen <= 64)
	mem := verifBytes("mem", memLen, 64)
	sc := verifScope(self, mem)
	slot, offset, width, typeId := verifU256("slot"), verifU256("offset"), verifU256("width"), verifU256("typeid")
	below := verifU256("below")
	registered := verifBool("registered")
	var tid common.Hash = typeId.Bytes32()

	offOk := verifAnd(offset.IsUint64(), offset.Uint64() <= 31)
	if registered {
		// the compiler registers the state variable before journaling it
		verifAssume(offOk)
		name := []byte("v")
		err := env.evm.tracer.SaveStateKey(self, nil, &slot, &offset, tid, common.Hash{}, name)
		verifAssert(err == nil, "registration of a top-level key with offset<=31 succeeds")
	}
	// enter a call so that the call index is not the default
	inCall := verifBool("incall")
	if inCall {
		env.evm.tracer.SaveCall(self, &self, nil, uint256.NewInt(0), uint256.NewInt(0))
		env.evm.tracer.SaveCall(self, &self, nil, uint256.NewInt(0), uint256.NewInt(0))
	}
	callIdx := env.evm.tracer.CurrentCallIndex()

	verifPush(sc, below)
	verifPush(sc, typeId)
	verifPush(sc, width)
	verifPush(sc, offset)
	verifPush(sc, slot)
	word := env.db.GetState(self, slot.Bytes32())
	readsBefore := env.db.reads
	pc := uint64(7)

	ret, err := opValueChangeJournal(verifCtx, &pc, env.interp, sc)
	verifReach("returned")

	wOk := verifAnd(width.IsUint64(), width.Uint64() <= 32)
	valid := verifAnd(verifAnd(offOk, wOk), offset.Uint64()+width.Uint64() <= 32)

	// frame condition (C12): nothing but the tracer changes
	verifAssert(ret == nil, "C12: no return data")
	verifAssert(sc.Stack.len() == 1, "C12: exactly the four operands are consumed")
	top := sc.Stack.peek()
	verifAssert(top.Eq(&below), "C12: stack below the operands untouched")
	verifAssert(pc == 7, "C12: pc untouched")
	verifAssert(uint64(sc.Memory.Len()) == memLen, "C12: memory length untouched")
	verifAssert(len(env.db.journal) == 0, "C12: no world-state mutation")
	verifAssert(env.db.reads-readsBefore <= 1, "C20: at most one state read")

	changes, qerr := env.evm.tracer.StateChanges().Slot(self, &slot, &offset, tid)
	if !valid {
		verifReach("invalid-operands")
		verifAssert(err != nil, "C09: invalid (offset,width) is rejected")
		verifAssert(err != nil && err != ErrExecutionReverted && err != errStopToken, "C12: malformed operands halt the frame exceptionally")
		if qerr == nil && changes != nil {
			verifAssert(len(changes.Changes()) == 0, "C09: rejected operands record nothing")
		}
		return
	}
	if !registered {
		verifReach("unregistered")
		verifAssert(err != nil, "C11: journal for an unregistered key is refused")
		verifAssert(changes == nil, "C11: nothing recorded for an unregistered key")
		return
	}
	verifReach("valid")
	verifAssert(err == nil, "C09: valid operands on a registered key are accepted")
	verifAssert(err == nil, "C12: well-formed operands do not disturb execution")
	verifAssert(qerr == nil && changes != nil, "C09: change visible through slot lookup")
	list := changes.Changes()[callIdx]
	verifAssert(len(list) == 1, "C10: one entry under the current call index")
	got := list[0]
	w, o := width.Uint64(), offset.Uint64()
	verifAssert(uint64(len(got)) == w, "C09: recorded width")
	j := verifU64("j")
	verifAssume(j < w)
	verifAssert(got[j] == word[32-o-w+j], "C09: recorded bytes are the packed field")
	// by name as well (C11)
	byName := env.evm.tracer.StateChanges().Variable(self, "v")
	verifAssert(byName == changes, "C11: lookup by name reaches the same record")
}

func init() {
	verifHarnesses["VerifHarness_VRJNAL"] = VerifHarness_VRJNAL
}

// VerifHarness_VRJNAL: the reference-journal instruction on an arbitrary
// bytes/string storage encoding, against Solidity's layout (short form: data
// left-aligned in the slot, low byte = 2*len; long form: slot = 2*len+1, data
// at keccak256(pad32(slot)) + i).
func VerifHarness_VRJNAL() {
	maxLen := verifParam("maxlen")
	env := newVerifEnv()
	self := verifAddr("self")
	sc := verifScope(self, nil)
	slot, typeId := verifU256("slot"), verifU256("typeid")
	below := verifU256("below")
	var tid common.Hash = typeId.Bytes32()
	registered := verifBool("registered")
	if registered {
		err := env.evm.tracer.SaveStateKey(self, nil, &slot, nil, tid, common.Hash{}, []byte("s"))
		verifAssert(err == nil, "registration of a top-level reference key succeeds")
	}
	verifPush(sc, below)
	verifPush(sc, typeId)
	verifPush(sc, slot)
	slot32 := slot.Bytes32()
	word := env.db.GetState(self, slot32)
	pc := uint64(3)

	// oracle: decode the length
	W := new(uint256.Int).SetBytes32(word[:])
	long := word[31]&1 == 1
	var length uint64
	var valid bool
	if long {
		l := new(uint256.Int).Sub(W, uint256.NewInt(1))
		l.Rsh(l, 1)
		valid = verifAnd(l.IsUint64(), l.Uint64() >= 32)
		length = l.Uint64()
		// bound of this harness: strings up to maxlen bytes; longer ones are C20's subject
		verifAssume(verifOr(!valid, length <= maxLen))
	} else {
		length = uint64(word[31] >> 1)
		valid = length <= 31
	}

	ret, err := opReferenceChangeJournal(verifCtx, &pc, env.interp, sc)
	verifReach("returned")

	verifAssert(ret == nil, "C12: no return data")
	verifAssert(sc.Stack.len() == 1, "C12: exactly the two operands are consumed")
	verifAssert(sc.Stack.peek().Eq(&below), "C12: stack below the operands untouched")
	verifAssert(pc == 3, "C12: pc untouched")
	verifAssert(len(env.db.journal) == 0, "C12: no world-state mutation")

	changes, qerr := env.evm.tracer.StateChanges().Slot(self, &slot, nil, tid)
	if !valid {
		verifReach("invalid-encoding")
		verifAssert(err != nil, "C09: invalid string encoding is rejected")
		verifAssert(err != nil && err != ErrExecutionReverted && err != errStopToken, "C12: malformed operands halt the frame exceptionally")
		if qerr == nil && changes != nil {
			verifAssert(len(changes.Changes()) == 0, "C09: rejected encoding records nothing")
		}
		return
	}
	if !registered {
		verifReach("unregistered")
		verifAssert(err != nil, "C11: journal for an unregistered key is refused")
		return
	}
	verifAssert(err == nil, "C09: valid string on a registered key is accepted")
	verifAssert(qerr == nil && changes != nil, "C09: change visible through slot lookup")
	list := changes.Changes()[0]
	verifAssert(len(list) == 1, "C10: one entry under call index 0")
	got := list[0]
	verifAssert(uint64(len(got)) == length, "C09: recorded string length")
	if !long {
		j := verifU64("j")
		verifAssume(j < length)
		verifReach("short")
		verifAssert(got[j] == word[j], "C09: short string content")
		return
	}
	verifReach("long")
	// position j = 32*k + r; k is case-split so that each data slot is one query
	kraw := verifU64("k")
	verifAssume(kraw <= maxLen/32)
	k := verifConcretize(kraw)
	r := verifU64("r")
	verifAssume(r < 32)
	j := 32*k + r
	verifAssume(j < length)
	base := verifKeccak(slot32[:])
	B := new(uint256.Int).SetBytes32(base[:])
	B.Add(B, uint256.NewInt(k))
	dataWord := env.db.GetState(self, B.Bytes32())
	verifAssert(got[j] == dataWord[r], "C09: long string content")
}
