//go:build verif

package vm

import (
	"context"
	"math/big"

	"github.com/artela-network/aspect-core/djpm"
	coretypes "github.com/artela-network/aspect-core/types"
	"github.com/ethereum/go-ethereum/common"
	"github.com/holiman/uint256"
	"google.golang.org/protobuf/proto"
)

func init() {
	verifHarnesses["VerifHarness_FrameCall"] = VerifHarness_FrameCall
}

func verifIsRevert(err error) bool { return err == ErrExecutionReverted }

// VerifHarness_FrameCall: one CALL frame (the real EVM.Call with the real
// aspect-core advice code) from an arbitrary state, with the callee's code and
// the Aspect runtime replaced by arbitrary outcomes.
func VerifHarness_FrameCall() {
	env := newVerifEnv()
	rec := &verifRecorder{}
	evm := env.evm
	tr := evm.tracer

	jpOn := verifBool("jp.on")
	bound := verifBool("jp.bound")
	debug := verifBool("debug")
	verifAssume(debug == (verifParam("debug") == 1) || verifParam("debug") == 2)
	depth := verifU64("depth")
	verifAssume(depth <= 1026)
	evm.depth = int(depth)
	evm.IsExecuteJP = jpOn
	if debug {
		evm.Config.Tracer = &verifLogger{rec}
	}
	djpm.VerifSetAspect(&verifProvider{bound: bound})

	callerAddr := verifAddr("caller")
	addr := verifAddr("addr")
	verifAssume(addr[0] != 0) // precompile targets have their own harness
	value := verifBig("value")
	// the frame may sit below a STATICCALL (the CALL instruction refuses value there)
	staticCtx := verifBool("static-context")
	verifAssume(!staticCtx || value.Sign() == 0)
	evm.interpreter.readOnly = staticCtx
	gas := verifU64("gas")
	inLen := verifU64("inlen")
	verifAssume(inLen <= 8)
	input := verifBytes("input", inLen, 8)
	inputCopy := common.CopyBytes(input)

	// an effect of the caller before this frame, and an enclosing call-tree node
	env.db.SetState(callerAddr, common.Hash{1}, common.Hash{2})
	entryLen := len(env.db.journal)
	outer := verifBool("outer")
	verifAssume(outer == (verifParam("outer") == 1) || verifParam("outer") == 2)
	if outer {
		// two enclosing nodes: the issuing frame has index 1, its parent index 0 (which is also
		// what an empty cursor reports), so a cursor left one level too high changes the stamp
		tr.SaveCall(callerAddr, &callerAddr, nil, uint256.NewInt(0), uint256.NewInt(0))
		tr.SaveCall(callerAddr, &callerAddr, nil, uint256.NewInt(0), uint256.NewInt(0))
	}
	expectedIndex := tr.callTree.count
	cursorBefore := tr.callTree.current
	stampBefore := tr.CurrentCallIndex()

	preKind, postKind, calleeKind := verifU64("pre.err"), verifU64("post.err"), verifU64("callee.err")
	verifAssume(preKind <= 6)
	verifAssume(postKind <= 6)
	verifAssume(calleeKind <= 3)
	preRet, postRet, calleeRet := []byte{0xa1}, []byte{0xa2, 0xa2}, []byte{0xa3, 0xa3, 0xa3}
	var preLeft, postLeft, runGas, runLeft uint64
	var calleeErr error

	djpm.VerifRunAspectHook = func(ctx context.Context, method coretypes.PointCut, g uint64, block int64, from,
		contractAddr common.Address, in []byte, val *big.Int, req proto.Message,
		aspects []*coretypes.AspectCode, lg coretypes.AspectLogger) *coretypes.AspectExecutionResult {
		res := &coretypes.AspectExecutionResult{}
		if method == coretypes.PRE_CONTRACT_CALL_METHOD {
			r := req.(*coretypes.PreContractCallInput)
			rec.add(verifLogEntry{kind: "JP-pre", from: from, to: contractAddr, input: in, gas: g, value: val, block: uint64(block),
				index: *r.Call.Index, ret: r.Call.Data, depth: int(*r.Call.Gas)})
			verifAssert(common.BytesToAddress(r.Call.From) == from && common.BytesToAddress(r.Call.To) == contractAddr, "C05: pre join point message carries caller and callee")
			preLeft = verifU64("pre.left")
			verifAssume(preLeft <= g) // contract of the Aspect runtime: it cannot return more gas than it got
			res.Gas, res.Err, res.Ret = preLeft, verifErrKind(preKind), preRet
			return res
		}
		r := req.(*coretypes.PostContractCallInput)
		rec.add(verifLogEntry{kind: "JP-post", from: from, to: contractAddr, input: in, gas: g, value: val, block: uint64(block),
			index: *r.Call.Index, ret: r.Call.Ret, errTxt: *r.Call.Error, depth: int(*r.Call.Gas)})
		postLeft = verifU64("post.left")
		verifAssume(postLeft <= g)
		res.Gas, res.Err, res.Ret = postLeft, verifErrKind(postKind), postRet
		return res
	}
	verifRunHook = func(in *EVMInterpreter, ctx context.Context, contract *Contract, inp []byte, ro bool) ([]byte, error) {
		rec.add(verifLogEntry{kind: "Run", from: contract.CallerAddress, to: contract.Address(), input: inp, gas: contract.Gas, value: contract.value, ro: ro})
		runGas = contract.Gas
		env.db.SetState(contract.Address(), common.Hash{3}, common.Hash{4})
		used := verifU64("callee.used")
		verifAssume(used <= contract.Gas)
		contract.Gas -= used
		runLeft = contract.Gas
		calleeErr = verifErrKind(calleeKind)
		// the host (or an Aspect's own EVM call) may switch join points while the callee runs
		if verifBool("callee.togglesjp") {
			evm.IsExecuteJP = !evm.IsExecuteJP
		}
		return calleeRet, calleeErr
	}

	ret, left, err := evm.Call(verifCtx, AccountRef(callerAddr), addr, input, gas, value)
	verifReach("returned")

	nPre, nRun, nPost := rec.count("JP-pre"), rec.count("Run"), rec.count("JP-post")
	jpAtReturn := evm.IsExecuteJP // the switch as it stands when the callee has returned

	// ---- C04: a failed frame leaves the world untouched
	if err != nil {
		verifReach("failed")
		verifAssert(len(env.db.journal) == entryLen, "C04: every effect of a failed frame is rolled back")
	} else {
		verifAssert(len(env.db.journal) >= entryLen, "C04: effects made before the frame are preserved")
	}
	verifAssert(env.db.journal[0].kind == "SetState", "C04: effects made before the frame are preserved (content)")

	// ---- C06 (all paths): no gas is created
	verifAssert(left <= gas, "C06: a frame never returns more gas than it was given")

	// ---- C05: join point firing discipline
	if !bound {
		verifAssert(nPre == 0 && nPost == 0, "C05: no Aspect runs when nothing is bound")
	}
	if !jpOn {
		verifAssert(nPre == 0, "C05: no pre join point when join points are off at entry")
	}
	if !jpAtReturn {
		verifAssert(nPost == 0, "C05: no post join point when join points are off when the callee returns")
	}
	verifAssert(nPre <= 1 && nPost <= 1 && nRun <= 1, "C05: at most one firing of each kind per frame")
	if nRun == 1 && jpOn && bound {
		verifReach("ran-with-jp")
		verifAssert(nPre == 1, "C05: a call that runs code fires its pre join point exactly once")
	}
	if nRun == 1 && jpAtReturn && bound {
		verifAssert(nPost == 1, "C05: a call that ran code fires its post join point exactly once")
	}
	if nPre == 1 {
		var pre verifLogEntry
		var iPre, iRun, iPost int = -1, -1, -1
		for i, e := range rec.log {
			switch e.kind {
			case "JP-pre":
				pre, iPre = e, i
			case "Run":
				iRun = i
			case "JP-post":
				iPost = i
			}
		}
		verifAssert(pre.from == callerAddr && pre.to == addr, "C05: pre join point gets caller and callee")
		verifAssert(verifBytesEq(pre.input, inputCopy) && verifBytesEq(pre.ret, inputCopy), "C05: pre join point gets the calldata")
		verifAssert(pre.value.Cmp(value) == 0, "C05: pre join point gets the value")
		verifAssert(pre.gas == gas && uint64(pre.depth) == gas, "C05: pre join point gets the current gas")
		verifAssert(pre.index == expectedIndex, "C05: pre join point gets this call's tree index")
		verifAssert(pre.block == 100, "C05: pre join point gets the block number")
		if preKind != 0 {
			verifReach("pre-failed")
			verifAssert(nRun == 0 && nPost == 0, "C05: after a failed pre join point neither the code nor the post join point runs")
			verifAssert(err != nil, "C04: a pre-join-point failure makes the call fail")
			if preKind == 2 || preKind == 4 {
				verifAssert(err == ErrOutOfGas, "C06: join-point out-of-gas surfaces as the EVM's out-of-gas error")
				verifAssert(left == 0, "C06: join-point out-of-gas returns no gas")
			}
			if preKind == 3 || preKind == 6 {
				verifAssert(left == 0, "C06: a non-revert pre-join-point failure forfeits the gas")
			}
			if verifIsRevert(err) {
				verifAssert(left == preLeft, "C06: a reverting pre join point hands back exactly what it left")
			}
		} else {
			verifAssert(iPre < iRun && (iPost < 0 || iRun < iPost), "C05: pre, code, post in this order")
			verifAssert(runGas == preLeft, "C06: the callee starts with exactly what the pre join point left")
		}
	}
	if nRun == 1 && nPre == 0 {
		verifAssert(runGas == gas, "C06: without Aspects the callee gets the supplied gas")
	}
	if nPost == 1 {
		var post verifLogEntry
		for _, e := range rec.log {
			if e.kind == "JP-post" {
				post = e
			}
		}
		verifAssert(post.from == callerAddr && post.to == addr, "C05: post join point gets caller and callee")
		verifAssert(verifBytesEq(post.input, inputCopy), "C05: post join point gets the calldata")
		verifAssert(post.value.Cmp(value) == 0, "C05: post join point gets the value")
		verifAssert(post.gas == runLeft && uint64(post.depth) == runLeft, "C06: the post join point gets what the callee left")
		verifAssert(post.index == expectedIndex, "C05: post join point gets this call's tree index")
		verifAssert(verifBytesEq(post.ret, calleeRet), "C05: post join point gets the callee's return data")
		if calleeErr == nil {
			verifAssert(post.errTxt == "", "C05: post join point gets an empty error for a successful callee")
		} else {
			verifAssert(post.errTxt == calleeErr.Error(), "C05: post join point gets the callee's error")
		}
		if postKind == 0 {
			verifAssert(err == calleeErr, "C05: a passing post join point leaves the callee's outcome")
		} else {
			verifReach("post-failed")
			verifAssert(err != nil, "C04: a post-join-point failure makes the call fail")
		}
		if postKind == 2 || postKind == 4 {
			verifAssert(err == ErrOutOfGas, "C06: join-point out-of-gas surfaces as the EVM's out-of-gas error")
			verifAssert(left == 0, "C06: join-point out-of-gas returns no gas")
		}
		if postKind == 3 || postKind == 6 {
			// whatever the callee did (success, revert, halt): a non-revert Aspect failure is an exceptional halt
			verifAssert(left == 0, "C06: a non-revert post-join-point failure forfeits the frame's gas")
			verifAssert(err != nil && !verifIsRevert(err), "C06: a non-revert post-join-point failure is not reported as a revert")
		}
		if err == nil || verifIsRevert(err) {
			verifAssert(left == postLeft, "C06: the caller gets back exactly what the post join point left")
		}
	}
	if nRun == 1 && nPost == 0 {
		if err == nil || verifIsRevert(err) {
			verifAssert(left == runLeft, "C06: without Aspects the caller gets back what the callee left")
		}
	}
	if err != nil && !verifIsRevert(err) && err.Error() != "execution reverted" && (nRun == 1 || nPre == 1) {
		verifAssert(left == 0, "C06: a non-revert failure forfeits the frame's gas")
	}

	// ---- C10: what the issuing frame journals after this frame is stamped with its own index again
	verifAssert(tr.CurrentCallIndex() == stampBefore, "C10: after the frame returns, entries are attributed to the issuing frame again")

	// ---- C07 / C08: the call-tree node of this frame
	ct := tr.CallTree()
	verifAssert(ct.count == expectedIndex+1, "C07: exactly one node per call attempt")
	verifAssert(ct.Current() == cursorBefore, "C07: the cursor is back where it was")
	verifAssert(ct.Current() == cursorBefore && evm.depth == int(depth) && evm.interpreter.readOnly == staticCtx, "C03: cursor, depth and static flag are back to rest on every exit of the frame")
	node := ct.FindCall(expectedIndex)
	verifAssert(node != nil && node.Index == expectedIndex, "C07: lookup by index returns the node carrying it")
	verifAssert(node.Parent == cursorBefore, "C07: parent is the frame that issued the call")
	if cursorBefore != nil {
		kids := cursorBefore.Children
		verifAssert(len(kids) == 1 && kids[0] == node, "C07: listed once among the parent's children")
	}
	verifAssert(node.From == callerAddr && node.To != nil && *node.To == addr, "C08: caller and target recorded")
	verifAssert(node.Value.ToBig().Cmp(value) == 0 && node.Gas.Uint64() == gas, "C08: value and supplied gas recorded")
	verifAssert(verifBytesEq(node.Data, inputCopy), "C08: calldata recorded")
	verifAssert(verifBytesEq(node.Ret, ret) && node.Err == err && node.RemainingGas == left, "C08: outcome recorded as handed back")

	// ---- C13: the value transfer happens at most once, exactly once when code or a join point ran
	verifAssert(env.db.transfers <= 1, "C13: at most one transfer per frame")
	if nRun == 1 || nPre == 1 {
		verifAssert(env.db.transfers == 1, "C13: the transfer precedes join points and code")
	}

	// ---- C18: debug tracer events stay balanced
	if debug {
		verifAssert(rec.count("Start") == rec.count("End") && rec.count("Enter") == rec.count("Exit"), "C18: start/end and enter/exit are balanced")
		if depth == 0 {
			verifAssert(rec.count("Enter") == 0, "C18: top-level frames use start/end")
		} else {
			verifAssert(rec.count("Start") == 0, "C18: nested frames use enter/exit")
		}
	}
}
