//go:build verif

package vm

import (
	"context"
	"math/big"

	"github.com/ethereum/go-ethereum/common"
	"github.com/ethereum/go-ethereum/params"
	"github.com/holiman/uint256"
)

func init() {
	verifHarnesses["VerifHarness_Step"] = VerifHarness_Step
}

func verifTable(fork uint64) (*JumpTable, params.Rules) {
	r := params.Rules{ChainID: big.NewInt(1)}
	tables := []*JumpTable{&frontierInstructionSet, &homesteadInstructionSet, &tangerineWhistleInstructionSet,
		&spuriousDragonInstructionSet, &byzantiumInstructionSet, &constantinopleInstructionSet, &istanbulInstructionSet,
		&berlinInstructionSet, &londonInstructionSet, &mergeInstructionSet, &shanghaiInstructionSet, &cancunInstructionSet}
	r.IsHomestead = fork >= 1
	r.IsEIP150 = fork >= 2
	r.IsEIP155 = fork >= 3
	r.IsEIP158 = fork >= 3
	r.IsByzantium = fork >= 4
	r.IsConstantinople = fork >= 5
	r.IsPetersburg = fork >= 5
	r.IsIstanbul = fork >= 6
	r.IsBerlin = fork >= 7
	r.IsLondon = fork >= 8
	r.IsMerge = fork >= 9
	r.IsShanghai = fork >= 10
	r.IsCancun = fork >= 11
	return tables[fork], r
}

// memCost is the yellow-paper memory fee for a size in bytes (multiple of 32).
func verifMemCost(size uint64) uint64 {
	w := size / 32
	return w*params.MemoryGas + w*w/params.QuadCoeffDiv
}

// VerifHarness_Step: the real interpreter loop entered with an arbitrary operand
// stack, memory, gas and static flag, executing one arbitrary instruction of the
// given fork's table (opcodes lo..hi), nested frames answered by an arbitrary callee.
func VerifHarness_Step(lo, hi, fork uint64) {
	env := newVerifEnv()
	evm := env.evm
	table, rules := verifTable(fork)
	evm.chainRules = rules
	env.interp.table = table
	rnd := verifHash("random")
	evm.Context.Random = &rnd
	evm.Context.GetHash = func(n uint64) common.Hash { return verifUF32("blockhash", common.BigToHash(new(big.Int).SetUint64(n)).Bytes()) }
	evm.TxContext.GasPrice = big.NewInt(7)
	verifInstallHost(nil, []byte{1}, common.Address{2})
	rec := &verifRecorder{}
	lite := verifParam("lite") == 1
	if !lite && verifBool("debug") {
		evm.Config.Tracer = &verifLogger{rec}
	}
	depth0 := int(verifParam("depth"))
	evm.depth = depth0
	ro0 := !lite && verifBool("readonly.outer")
	env.interp.readOnly = ro0
	evm.tracer.SaveCall(common.Address{}, nil, nil, uint256.NewInt(0), uint256.NewInt(0))
	cursor0 := evm.tracer.callTree.current

	opRaw := verifU64("op")
	verifAssume(opRaw >= lo && opRaw <= hi)
	op := OpCode(verifConcretize(opRaw))
	operation := table[op]

	// operand stack: exactly what the instruction needs, plus one word below it
	extra := verifParam("extradepth")
	need := uint64(operation.minStack)
	if op >= RSVJNAL && op <= VRJNAL {
		// exactly the operands the instruction is specified to consume (not what the table declares)
		need = uint64(verifJournalPops(op))
	}
	words := make([]uint256.Int, 0, 20)
	for i := uint64(0); i < need+extra; i++ {
		words = append(words, verifU256("stack"))
	}
	if op == CALL || op == CALLCODE || op == DELEGATECALL || op == STATICCALL {
		// precompile targets have their own harnesses (PrecompileVia_*): keep the target an ordinary account
		target := &words[len(words)-2]
		verifAssume((target[2]>>24)&0xff != 0)
	}
	verifStackHook = func() *Stack { return &Stack{data: words} }
	// memory: 0..3 words of arbitrary content, fee bookkeeping consistent with its size
	mw := verifU64("memwords")
	verifAssume(mw <= 3)
	if lite {
		verifAssume(mw <= 1)
	}
	memBytes := verifBytes("mem", mw*32, 96)
	verifMemoryHook = func() *Memory { return &Memory{store: memBytes, lastGasCost: verifMemCost(mw * 32)} }

	self, callerAddr := verifAddr("self"), verifAddr("caller")
	gas := verifU64("gas")
	contract := NewContract(AccountRef(callerAddr), AccountRef(self), verifBig("callvalue"), gas)
	var code []byte
	switch {
	case op >= PUSH1 && op <= PUSH32:
		// the opcode followed by at most its immediate bytes, so that execution ends after the push
		n := verifU64("codelen")
		verifAssume(n >= 1 && n <= uint64(op-PUSH1)+2)
		code = verifBytes("code", n, 34)
	case op == JUMP || op == JUMPI:
		code = []byte{byte(op), byte(JUMPDEST)}
	default:
		code = []byte{byte(op)}
	}
	code[0] = byte(op)
	contract.Code = code
	contract.CodeHash = verifHash("codehash")
	inLen := verifU64("inlen")
	verifAssume(inLen <= 40)
	input := verifBytes("input", inLen, 40)
	env.interp.returnData = nil
	nested := 0
	verifRunHook = func(in *EVMInterpreter, ctx context.Context, c *Contract, inp []byte, ro bool) ([]byte, error) {
		if c == contract {
			return in.verifRealRun(ctx, c, inp, ro)
		}
		nested++
		used := verifU64("callee.used")
		verifAssume(used <= c.Gas)
		c.Gas -= used
		k := verifU64("callee.err")
		verifAssume(k <= 2)
		rl := verifU64("callee.retlen")
		verifAssume(rl <= 40)
		return verifBytes("callee.ret", rl, 40), verifErrKind(k)
	}
	if verifParam("cutframes") == 1 {
		// the frame routines have their own harnesses; here only the handler's glue is wanted
		verifFrameHook = func(kind OpCode, caller ContractRef, addr common.Address, in []byte, g uint64, value *big.Int) ([]byte, common.Address, uint64, error) {
			nested++
			left := verifU64("frame.left")
			verifAssume(left <= g)
			k := verifU64("frame.err")
			verifAssume(k <= 2)
			rl := verifU64("frame.retlen")
			verifAssume(rl <= 40)
			return verifBytes("frame.ret", rl, 40), verifAddr("frame.addr"), left, verifErrKind(k)
		}
	}
	alloc0 := verifWorkAlloc()
	verifStepContract, verifStepGas0, verifStepNested = contract, gas, &nested

	ret, err := env.interp.Run(verifCtx, contract, input, verifBool("readonly"))
	verifStepContract = nil
	verifReach("returned")
	_ = ret

	// ---- C03: bookkeeping closed on every exit path (no panic is implicit)
	verifAssert(evm.depth == depth0, "C03: call depth back to rest")
	verifAssert(env.interp.readOnly == ro0, "C03: static flag restored")
	verifAssert(evm.tracer.callTree.current == cursor0, "C03: call-tree cursor back to rest")
	if nested == 0 {
		// (with a nested frame the statement needs the 63/64 arithmetic: it is C06's frame harness)
		verifAssert(contract.Gas <= gas, "C06: an instruction never creates gas")
	}

	// ---- C20: work is bounded by a fixed multiple of the gas paid
	used := gas - contract.Gas
	if nested == 0 {
		// (work done on behalf of a nested frame is paid for by that frame: outside this step's claim)
		if op < RSVJNAL || op > VRJNAL {
			verifAssert((verifWorkAlloc()-alloc0)/64 <= used+128, "C20: bytes allocated bounded by gas paid")
		}
		// (known finding: the reference-journal instruction reads ceil(len/32) slots for its flat fee)
		verifKnown("C20-vrjnal-length-driven-loop", op == VRJNAL && env.db.reads > 8)
		verifAssert(env.db.reads <= used/20+16, "C20: state reads bounded by gas paid")
	}

	// ---- C12: the journal instructions cost the same flat fee whatever the operands
	if op >= RSVJNAL && op <= VRJNAL {
		verifReach("journal-op")
		_, under := err.(*ErrStackUnderflow)
		verifAssert(!under, "C12: a journal instruction given its operands does not fail on the declared stack bounds")
		if err == nil {
			verifAssert(used == params.SloadGasEIP2200, "C12: flat non-zero fee for every journal instruction")
		}
		if err != nil {
			verifAssert(contract.Gas == 0 || err != ErrExecutionReverted, "C12: malformed operands halt the frame exceptionally")
		}
		verifAssert(len(env.db.journal) == 0, "C12: no world-state mutation")
	}
	if verifBool("checkdebug") && evm.Config.Tracer != nil {
		verifAssert(rec.count("Enter") == rec.count("Exit"), "C18: nested enter/exit balanced")
	}
}

func init() {
	verifHarnesses["VerifHarness_StepCancel"] = VerifHarness_StepCancel
}

// VerifHarness_StepCancel: a jump instruction executed while another goroutine
// may call Cancel at any moment (the abort flag's Load answers arbitrarily but
// monotonically, see the engine's concurrent mode), and with Cancel already called.
func VerifHarness_StepCancel(opb uint64) {
	env := newVerifEnv()
	evm := env.evm
	op := OpCode(opb)
	already := verifBool("cancelled.before")
	if already {
		evm.Cancel()
	}
	depth0 := evm.depth
	dest, cond := verifU256("dest"), verifU256("cond")
	words := []uint256.Int{cond, dest}
	if op == JUMP {
		words = []uint256.Int{dest}
	}
	verifStackHook = func() *Stack { return &Stack{data: words} }
	gas := verifU64("gas")
	contract := NewContract(AccountRef(verifAddr("caller")), AccountRef(verifAddr("self")), new(big.Int), gas)
	contract.Code = []byte{byte(op), byte(JUMPDEST), byte(JUMPDEST), byte(STOP)}
	evm.tracer.SaveCall(common.Address{}, nil, nil, uint256.NewInt(0), uint256.NewInt(0))
	cursor0 := evm.tracer.callTree.current
	ret, err := env.interp.Run(verifCtx, contract, nil, false)
	verifReach("returned")
	verifAssert(evm.depth == depth0 && evm.tracer.callTree.current == cursor0 && !env.interp.readOnly, "C17: bookkeeping closed whatever the moment of cancellation")
	if already && gas >= 100 {
		taken := op == JUMP || !cond.IsZero()
		if taken && dest.IsUint64() && (dest.Uint64() == 1 || dest.Uint64() == 2) {
			verifReach("stopped")
			verifAssert(err == nil && ret == nil, "C17: a cancelled execution stops at the next jump")
			verifAssert(gas-contract.Gas <= 20, "C17: a cancelled execution stops promptly (no further instruction is charged)")
		}
	}
}

// verifStepOOB is called by the engine (never natively) when the instruction under test asks
// for an allocation larger than the encoding's buffers: the size is still symbolic, and the
// gas the interpreter has charged by then must pay for it.
var verifStepContract *Contract
var verifStepGas0 uint64
var verifStepNested *int

func verifStepOOB(size uint64) {
	if verifStepContract == nil || (verifStepNested != nil && *verifStepNested > 0) {
		return
	}
	used := verifStepGas0 - verifStepContract.Gas
	verifAssert(size/64 <= used+128, "C20: allocation beyond the encoded buffer sizes is paid for by the gas charged before it")
}
