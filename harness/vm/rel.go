//go:build verif

package vm

// Relational harnesses: the same symbolic state is run through the artela code
// and through the go-ethereum v1.12.0 code it was forked from (the upstream
// package in the module cache, with the same cut points regenerated on every
// run); every observable must agree.

import (
	"context"
	"math/big"

	"github.com/artela-network/aspect-core/djpm"
	"github.com/ethereum/go-ethereum/common"
	"github.com/ethereum/go-ethereum/common/math"
	"github.com/ethereum/go-ethereum/core/types"
	ethvm "github.com/ethereum/go-ethereum/core/vm"
	"github.com/ethereum/go-ethereum/params"
	"github.com/holiman/uint256"
)

func init() {
	verifHarnesses["VerifHarness_RelStep"] = VerifHarness_RelStep
}

// verifChainConfig activates the forks up to `fork` (index as in verifTable) at block 0 / time 0.
func verifChainConfig(fork uint64) *params.ChainConfig {
	z := big.NewInt(0)
	zt := uint64(0)
	c := &params.ChainConfig{ChainID: big.NewInt(1)}
	if fork >= 1 {
		c.HomesteadBlock = z
	}
	if fork >= 2 {
		c.EIP150Block = z
	}
	if fork >= 3 {
		c.EIP155Block, c.EIP158Block = z, z
	}
	if fork >= 4 {
		c.ByzantiumBlock = z
	}
	if fork >= 5 {
		c.ConstantinopleBlock, c.PetersburgBlock = z, z
	}
	if fork >= 6 {
		c.IstanbulBlock = z
	}
	if fork >= 7 {
		c.BerlinBlock = z
	}
	if fork >= 8 {
		c.LondonBlock = z
	}
	if fork >= 10 {
		c.ShanghaiTime = &zt
	}
	return c
}

// the upstream side's per-instruction recorder
type verifSnapG struct {
	pc    uint64
	op    byte
	gas   uint64
	cost  uint64
	depth int
	stack []uint256.Int
	mem   []byte
	rdata []byte
	err   error
	fault bool
}
type verifLoggerG struct {
	snaps []verifSnapG
	rec   *verifRecorder
}

func (l *verifLoggerG) CaptureTxStart(gasLimit uint64) {}
func (l *verifLoggerG) CaptureTxEnd(restGas uint64)    {}
func (l *verifLoggerG) CaptureStart(env *ethvm.EVM, from common.Address, to common.Address, create bool, input []byte, gas uint64, value *big.Int) {
	l.rec.add(verifLogEntry{kind: "Start", from: from, to: to, input: input, gas: gas, value: value, ro: create})
}
func (l *verifLoggerG) CaptureEnd(output []byte, gasUsed uint64, err error) {
	l.rec.add(verifLogEntry{kind: "End", ret: output, gas: gasUsed, err: err})
}
func (l *verifLoggerG) CaptureEnter(typ ethvm.OpCode, from common.Address, to common.Address, input []byte, gas uint64, value *big.Int) {
	l.rec.add(verifLogEntry{kind: "Enter", from: from, to: to, input: input, gas: gas, value: value, index: uint64(typ)})
}
func (l *verifLoggerG) CaptureExit(output []byte, gasUsed uint64, err error) {
	l.rec.add(verifLogEntry{kind: "Exit", ret: output, gas: gasUsed, err: err})
}
func (l *verifLoggerG) CaptureState(pc uint64, op ethvm.OpCode, gas, cost uint64, scope *ethvm.ScopeContext, rData []byte, depth int, err error) {
	st := make([]uint256.Int, len(scope.Stack.Data()))
	copy(st, scope.Stack.Data())
	l.snaps = append(l.snaps, verifSnapG{pc: pc, op: byte(op), gas: gas, cost: cost, depth: depth, stack: st, mem: common.CopyBytes(scope.Memory.Data()), rdata: common.CopyBytes(rData), err: err})
}
func (l *verifLoggerG) CaptureFault(pc uint64, op ethvm.OpCode, gas, cost uint64, scope *ethvm.ScopeContext, depth int, err error) {
	l.snaps = append(l.snaps, verifSnapG{pc: pc, op: byte(op), gas: gas, cost: cost, depth: depth, err: err, fault: true})
}

// the artela side's recorder with the same content
type verifLoggerA struct {
	snaps []verifSnapG
	rec   *verifRecorder
}

func (l *verifLoggerA) CaptureTxStart(gasLimit uint64) {}
func (l *verifLoggerA) CaptureTxEnd(restGas uint64)    {}
func (l *verifLoggerA) CaptureStart(env *EVM, from common.Address, to common.Address, create bool, input []byte, gas uint64, value *big.Int) {
	l.rec.add(verifLogEntry{kind: "Start", from: from, to: to, input: input, gas: gas, value: value, ro: create})
}
func (l *verifLoggerA) CaptureEnd(output []byte, gasUsed uint64, err error) {
	l.rec.add(verifLogEntry{kind: "End", ret: output, gas: gasUsed, err: err})
}
func (l *verifLoggerA) CaptureEnter(typ OpCode, from common.Address, to common.Address, input []byte, gas uint64, value *big.Int) {
	l.rec.add(verifLogEntry{kind: "Enter", from: from, to: to, input: input, gas: gas, value: value, index: uint64(typ)})
}
func (l *verifLoggerA) CaptureExit(output []byte, gasUsed uint64, err error) {
	l.rec.add(verifLogEntry{kind: "Exit", ret: output, gas: gasUsed, err: err})
}
func (l *verifLoggerA) CaptureState(pc uint64, op OpCode, gas, cost uint64, scope *ScopeContext, rData []byte, depth int, err error) {
	st := make([]uint256.Int, len(scope.Stack.Data()))
	copy(st, scope.Stack.Data())
	l.snaps = append(l.snaps, verifSnapG{pc: pc, op: byte(op), gas: gas, cost: cost, depth: depth, stack: st, mem: common.CopyBytes(scope.Memory.Data()), rdata: common.CopyBytes(rData), err: err})
}
func (l *verifLoggerA) CaptureFault(pc uint64, op OpCode, gas, cost uint64, scope *ScopeContext, depth int, err error) {
	l.snaps = append(l.snaps, verifSnapG{pc: pc, op: byte(op), gas: gas, cost: cost, depth: depth, err: err, fault: true})
}

// verifSameErr: same failure class on both sides (the two packages have their own error values).
func verifSameErr(a, g error) bool {
	if a == nil || g == nil {
		return a == nil && g == nil
	}
	switch a.(type) {
	case *ErrStackUnderflow:
		_, ok := g.(*ethvm.ErrStackUnderflow)
		return ok
	case *ErrStackOverflow:
		_, ok := g.(*ethvm.ErrStackOverflow)
		return ok
	case *ErrInvalidOpCode:
		_, ok := g.(*ethvm.ErrInvalidOpCode)
		return ok
	}
	switch g.(type) {
	case *ethvm.ErrStackUnderflow, *ethvm.ErrStackOverflow, *ethvm.ErrInvalidOpCode:
		return false
	}
	return a.Error() == g.Error()
}

func verifSameBig(a, g *big.Int) bool {
	if a == nil || g == nil {
		return a == nil && g == nil
	}
	return a.Cmp(g) == 0
}

// verifCompareWorlds asserts that two event-journal worlds are equal.
func verifCompareWorlds(a, g *verifStateDB, tag string) {
	verifAssert(len(a.journal) == len(g.journal), tag+": same number of state effects")
	for i := range a.journal {
		if i >= len(g.journal) {
			break
		}
		x, y := a.journal[i], g.journal[i]
		verifAssert(x.kind == y.kind && x.addr == y.addr && x.key == y.key && x.val == y.val && x.num == y.num && verifBytesEq(x.data, y.data), tag+": same state effects in the same order")
	}
	verifAssert(len(a.reverts) == len(g.reverts) && a.snaps == g.snaps, tag+": same snapshot/revert activity")
}

func verifCompareTraces(a *verifLoggerA, g *verifLoggerG, tag string) {
	verifAssert(len(a.snaps) == len(g.snaps), tag+": same number of per-instruction callbacks")
	for i := range a.snaps {
		if i >= len(g.snaps) {
			break
		}
		x, y := a.snaps[i], g.snaps[i]
		verifAssert(x.pc == y.pc && x.op == y.op && x.gas == y.gas && x.cost == y.cost && x.depth == y.depth && x.fault == y.fault, tag+": same pc, opcode, gas, cost and depth at every step")
		verifAssert(verifSameErr(x.err, y.err), tag+": same error at every step")
		verifAssert(len(x.stack) == len(y.stack), tag+": same stack height at every step")
		for k := range x.stack {
			if k < len(y.stack) {
				verifAssert(x.stack[k].Eq(&y.stack[k]), tag+": same stack content at every step")
			}
		}
		verifAssert(verifBytesEq(x.mem, y.mem), tag+": same memory at every step")
		verifAssert(verifBytesEq(x.rdata, y.rdata), tag+": same return-data buffer at every step")
	}
	verifAssert(len(a.rec.log) == len(g.rec.log), tag+": same number of frame callbacks")
	for i := range a.rec.log {
		if i >= len(g.rec.log) {
			break
		}
		x, y := a.rec.log[i], g.rec.log[i]
		verifAssert(x.kind == y.kind && x.from == y.from && x.to == y.to && x.gas == y.gas && x.index == y.index && x.ro == y.ro, tag+": same frame callbacks in the same order")
		verifAssert(verifBytesEq(x.input, y.input) && verifBytesEq(x.ret, y.ret) && verifSameBig(x.value, y.value) && verifSameErr(x.err, y.err), tag+": same frame callback arguments")
	}
}

type verifDraw struct {
	used uint64
	kind uint64
	ret  []byte
}

// VerifHarness_RelStep: one arbitrary instruction (opcodes lo..hi of the given
// fork) from one arbitrary machine state, executed by the artela interpreter and
// by the go-ethereum v1.12.0 interpreter; nested frames are answered by the same
// arbitrary callee on both sides.
func VerifHarness_RelStep(lo, hi, fork uint64) {
	cfg := verifChainConfig(fork)
	rnd := verifHash("random")
	gasPrice := big.NewInt(7)
	getHash := func(n uint64) common.Hash { return verifUF32("blockhash", common.BigToHash(new(big.Int).SetUint64(n)).Bytes()) }
	coinbase := verifAddr("coinbase")
	baseFee, difficulty := verifBig("basefee"), verifBig("difficulty")
	number, gasLimit, timestamp := new(big.Int).SetUint64(verifU64("blocknumber")), verifU64("gaslimit"), verifU64("timestamp")
	origin := verifAddr("origin")
	debug := verifBool("debug")
	jp := verifParam("joinpoints") == 1

	opRaw := verifU64("op")
	verifAssume(opRaw >= lo && opRaw <= hi)
	op := OpCode(verifConcretize(opRaw))
	need := uint64((*verifForkTable(fork))[op].minStack)
	extra := verifParam("extradepth")
	wordsA := make([]uint256.Int, 0, 20)
	for i := uint64(0); i < need+extra; i++ {
		wordsA = append(wordsA, verifU256("stack"))
	}
	if op == CALL || op == CALLCODE || op == DELEGATECALL || op == STATICCALL {
		target := &wordsA[len(wordsA)-2]
		verifAssume((target[2]>>24)&0xff != 0)
	}
	if op == CREATE || op == CREATE2 {
		// init code of at most 8 bytes (its hash is an uninterpreted function of length and content)
		size := &wordsA[len(wordsA)-3]
		verifAssume(size.IsUint64() && size.Uint64() <= 8)
	}
	wordsG := make([]uint256.Int, len(wordsA), 20)
	copy(wordsG, wordsA)
	mw := verifU64("memwords")
	verifAssume(mw <= verifParam("memwords"))
	memA := verifBytes("mem", mw*32, 96)
	memG := verifCloneBytes(memA)
	self, callerAddr := verifAddr("self"), verifAddr("caller")
	gas := verifU64("gas")
	callValue := verifBig("callvalue")
	var code []byte
	switch {
	case op >= PUSH1 && op <= PUSH32:
		n := verifU64("codelen")
		verifAssume(n >= 1 && n <= uint64(op-PUSH1)+2)
		code = verifBytes("code", n, 34)
	case op == JUMP || op == JUMPI:
		code = []byte{byte(op), byte(JUMPDEST)}
	default:
		code = []byte{byte(op)}
	}
	code[0] = byte(op)
	codeHash := verifHash("codehash")
	inLen := verifU64("inlen")
	verifAssume(inLen <= 40)
	input := verifBytes("input", inLen, 40)
	readOnly := verifBool("readonly")
	var draws []verifDraw
	draw := func(i int, g uint64) verifDraw {
		for len(draws) <= i {
			d := verifDraw{used: verifU64("callee.used"), kind: verifU64("callee.err")}
			verifAssume(d.kind <= 2)
			rl := verifU64("callee.retlen")
			verifAssume(rl <= 40)
			d.ret = verifBytes("callee.ret", rl, 40)
			draws = append(draws, d)
		}
		return draws[i]
	}

	// ---------------- artela
	dbA := newVerifStateDB()
	lgA := &verifLoggerA{rec: &verifRecorder{}}
	cfgA := Config{}
	if debug {
		cfgA.Tracer = lgA
	}
	djpm.VerifSetAspect(&verifProvider{bound: false})
	evmA := NewEVM(BlockContext{CanTransfer: verifCanTransfer, Transfer: verifTransfer, GetHash: getHash, Coinbase: coinbase, GasLimit: gasLimit,
		BlockNumber: number, Time: timestamp, Difficulty: difficulty, BaseFee: baseFee, Random: &rnd},
		TxContext{Origin: origin, GasPrice: gasPrice}, dbA, cfg, cfgA)
	evmA.IsExecuteJP = jp
	// the frame is "in the middle": an earlier call may have left return data behind
	rdLen := verifU64("returndata.len")
	verifAssume(rdLen <= 4)
	rdata := verifBytes("returndata", rdLen, 4)
	firstA, firstG := true, true
	verifReturnDataHook = func() []byte {
		if firstA {
			firstA = false
			return verifCloneBytes(rdata)
		}
		return nil
	}
	ethvm.VerifReturnDataHook = func() []byte {
		if firstG {
			firstG = false
			return verifCloneBytes(rdata)
		}
		return nil
	}
	verifStackHook = func() *Stack { return &Stack{data: wordsA} }
	verifMemoryHook = func() *Memory { return &Memory{store: memA, lastGasCost: verifMemCost(mw * 32)} }
	contractA := NewContract(AccountRef(callerAddr), AccountRef(self), callValue, gas)
	contractA.Code, contractA.CodeHash = code, codeHash
	nA := 0
	verifRunHook = func(in *EVMInterpreter, ctx context.Context, c *Contract, inp []byte, ro bool) ([]byte, error) {
		if c == contractA {
			return in.verifRealRun(ctx, c, inp, ro)
		}
		d := draw(nA, c.Gas)
		nA++
		if d.used > c.Gas {
			c.Gas = 0
		} else {
			c.Gas -= d.used
		}
		in.evm.StateDB.SetState(c.Address(), common.Hash{9}, common.Hash{9})
		return d.ret, verifErrKind(d.kind)
	}
	cutFrames := verifParam("cutframes") == 1
	if cutFrames {
		// only the opcode handler's glue is compared: the frame routine answers arbitrarily (same on both sides)
		verifFrameHook = func(kind OpCode, caller ContractRef, addr common.Address, in []byte, g uint64, value *big.Int) ([]byte, common.Address, uint64, error) {
			d := draw(nA, g)
			nA++
			left := d.used
			if left > g {
				left = g
			}
			dbA.SetState(addr, common.Hash{8}, common.BytesToHash(in))
			return d.ret, common.BytesToAddress(d.ret), left, verifErrKind(d.kind)
		}
	}
	retA, errA := evmA.Interpreter().Run(verifCtx, contractA, input, readOnly)
	verifFrameHook = nil

	// ---------------- go-ethereum v1.12.0
	dbG := newVerifStateDB()
	dbG.codes = dbA.codes // both worlds hold the same contract code
	lgG := &verifLoggerG{rec: &verifRecorder{}}
	cfgG := ethvm.Config{}
	if debug {
		cfgG.Tracer = lgG
	}
	evmG := ethvm.NewEVM(ethvm.BlockContext{
		CanTransfer: func(db ethvm.StateDB, a common.Address, v *big.Int) bool { return verifCanTransfer(nil, a, v) },
		Transfer: func(db ethvm.StateDB, from, to common.Address, v *big.Int) {
			verifTransfer(db.(*verifStateDB), from, to, v)
		},
		GetHash: getHash, Coinbase: coinbase, GasLimit: gasLimit,
		BlockNumber: number, Time: timestamp, Difficulty: difficulty, BaseFee: baseFee, Random: &rnd},
		ethvm.TxContext{Origin: origin, GasPrice: gasPrice}, dbG, cfg, cfgG)
	ethvm.VerifStackHook = func() *ethvm.Stack { return ethvm.VerifStackWith(wordsG) }
	ethvm.VerifMemoryHook = func() *ethvm.Memory { return ethvm.VerifMemoryWith(memG, verifMemCost(mw*32)) }
	contractG := ethvm.NewContract(ethvm.AccountRef(callerAddr), ethvm.AccountRef(self), callValue, gas)
	contractG.Code, contractG.CodeHash = code, codeHash
	nG := 0
	ethvm.VerifRunHook = func(in *ethvm.EVMInterpreter, c *ethvm.Contract, inp []byte, ro bool) ([]byte, error) {
		if c == contractG {
			return in.VerifRealRun(c, inp, ro)
		}
		d := draw(nG, c.Gas)
		nG++
		if d.used > c.Gas {
			c.Gas = 0
		} else {
			c.Gas -= d.used
		}
		dbG.SetState(c.Address(), common.Hash{9}, common.Hash{9})
		k := d.kind
		var e error
		switch k {
		case 1:
			e = ethvm.ErrExecutionReverted
		case 2:
			e = ethvm.ErrOutOfGas
		}
		return d.ret, e
	}
	if cutFrames {
		ethvm.VerifFrameHook = func(kind ethvm.OpCode, caller ethvm.ContractRef, addr common.Address, in []byte, g uint64, value *big.Int) ([]byte, common.Address, uint64, error) {
			d := draw(nG, g)
			nG++
			left := d.used
			if left > g {
				left = g
			}
			dbG.SetState(addr, common.Hash{8}, common.BytesToHash(in))
			var e error
			switch d.kind {
			case 1:
				e = ethvm.ErrExecutionReverted
			case 2:
				e = ethvm.ErrOutOfGas
			}
			return d.ret, common.BytesToAddress(d.ret), left, e
		}
	}
	retG, errG := evmG.Interpreter().Run(contractG, input, readOnly)
	ethvm.VerifFrameHook = nil
	verifReach("both-ran")

	verifAssert(verifSameErr(errA, errG), "C01: same success or failure class")
	verifAssert(verifBytesEq(retA, retG), "C01: same return data")
	verifAssert(contractA.Gas == contractG.Gas, "C02: same gas left after the instruction")
	verifAssert(nA == nG, "C01: same number of nested frames")
	verifCompareWorlds(dbA, dbG, "C01")
	verifCompareWorlds(dbA, dbG, "C02") // refund-counter changes are world events
	if debug {
		// the per-instruction callbacks expose stack, memory, gas and cost before every instruction
		// (the one after the instruction under test shows its effect): the same facts serve three properties
		verifCompareTraces(lgA, lgG, "C01")
		verifCompareTraces(lgA, lgG, "C02")
		verifCompareTraces(lgA, lgG, "C18")
	}
}

func verifForkTable(fork uint64) *JumpTable {
	t, _ := verifTable(fork)
	return t
}

func init() {
	verifHarnesses["VerifHarness_RelFrame"] = VerifHarness_RelFrame
}

// VerifHarness_RelFrame: one frame routine (0 Call, 1 CallCode, 2 DelegateCall,
// 3 StaticCall, 4 Create, 5 Create2) on the same arbitrary arguments and world in
// the artela EVM - tracer and call tree active, join points on with no Aspect bound
// or off - and in the go-ethereum v1.12.0 EVM; the callee is the same arbitrary
// callee on both sides.
func VerifHarness_RelFrame(kind, fork uint64) {
	cfg := verifChainConfig(fork)
	rnd := verifHash("random")
	getHash := func(n uint64) common.Hash { return common.Hash{} }
	debug := verifBool("debug")
	jp := verifBool("joinpoints.on")
	grand, callerAddr, addr := verifAddr("grandparent"), verifAddr("caller"), verifAddr("addr")
	if kind <= 3 && !verifBool("target.mayprecompile") {
		verifAssume(addr[0] != 0)
	}
	// 0x64-0x66 are Artela's own precompiles: not part of "standard opcodes and standard precompiles"
	verifAssume(addr != common.BytesToAddress([]byte{100}) && addr != common.BytesToAddress([]byte{101}) && addr != common.BytesToAddress([]byte{102}))
	value := verifBig("value")
	parentValue := verifBig("parentvalue")
	gas := verifU64("gas")
	inLen := verifU64("inlen")
	verifAssume(inLen <= 8)
	input := verifBytes("input", inLen, 8)
	salt := verifU256("salt")
	var draws []verifDraw
	draw := func(i int) verifDraw {
		for len(draws) <= i {
			d := verifDraw{used: verifU64("callee.used"), kind: verifU64("callee.err")}
			verifAssume(d.kind <= 2)
			rl := verifU64("callee.retlen")
			verifAssume(rl <= 4)
			d.ret = verifBytes("callee.ret", rl, 4)
			draws = append(draws, d)
		}
		return draws[i]
	}
	// ---------------- artela
	dbA := newVerifStateDB()
	lgA := &verifLoggerA{rec: &verifRecorder{}}
	cfgA := Config{}
	if debug {
		cfgA.Tracer = lgA
	}
	djpm.VerifSetAspect(&verifProvider{bound: false})
	evmA := NewEVM(BlockContext{CanTransfer: verifCanTransfer, Transfer: verifTransfer, GetHash: getHash,
		BlockNumber: big.NewInt(0), Difficulty: big.NewInt(0), BaseFee: big.NewInt(0), Random: &rnd},
		TxContext{GasPrice: big.NewInt(1)}, dbA, cfg, cfgA)
	evmA.IsExecuteJP = jp
	nA := 0
	verifRunHook = func(in *EVMInterpreter, ctx context.Context, c *Contract, inp []byte, ro bool) ([]byte, error) {
		d := draw(nA)
		nA++
		if d.used > c.Gas {
			c.Gas = 0
		} else {
			c.Gas -= d.used
		}
		in.evm.StateDB.SetState(c.Address(), common.Hash{9}, common.BytesToHash(inp))
		in.evm.StateDB.AddLog(&types.Log{Address: c.CallerAddress})
		return d.ret, verifErrKind(d.kind)
	}
	callerA := NewContract(AccountRef(grand), AccountRef(callerAddr), parentValue, 1)
	var retA []byte
	var leftA uint64
	var errA error
	var newA common.Address
	switch kind {
	case 0:
		retA, leftA, errA = evmA.Call(verifCtx, callerA, addr, input, gas, value)
	case 1:
		retA, leftA, errA = evmA.CallCode(verifCtx, callerA, addr, input, gas, value)
	case 2:
		retA, leftA, errA = evmA.DelegateCall(verifCtx, callerA, addr, input, gas)
	case 3:
		retA, leftA, errA = evmA.StaticCall(verifCtx, callerA, addr, input, gas)
	case 4:
		retA, newA, leftA, errA = evmA.Create(verifCtx, callerA, input, gas, value)
	default:
		retA, newA, leftA, errA = evmA.Create2(verifCtx, callerA, input, gas, value, &salt)
	}
	// ---------------- go-ethereum v1.12.0
	dbG := newVerifStateDB()
	dbG.codes = dbA.codes
	lgG := &verifLoggerG{rec: &verifRecorder{}}
	cfgG := ethvm.Config{}
	if debug {
		cfgG.Tracer = lgG
	}
	evmG := ethvm.NewEVM(ethvm.BlockContext{
		CanTransfer: func(db ethvm.StateDB, a common.Address, v *big.Int) bool { return verifCanTransfer(nil, a, v) },
		Transfer: func(db ethvm.StateDB, from, to common.Address, v *big.Int) {
			verifTransfer(db.(*verifStateDB), from, to, v)
		},
		GetHash: getHash, BlockNumber: big.NewInt(0), Difficulty: big.NewInt(0), BaseFee: big.NewInt(0), Random: &rnd},
		ethvm.TxContext{GasPrice: big.NewInt(1)}, dbG, cfg, cfgG)
	nG := 0
	ethvm.VerifRunHook = func(in *ethvm.EVMInterpreter, c *ethvm.Contract, inp []byte, ro bool) ([]byte, error) {
		d := draw(nG)
		nG++
		if d.used > c.Gas {
			c.Gas = 0
		} else {
			c.Gas -= d.used
		}
		dbG.SetState(c.Address(), common.Hash{9}, common.BytesToHash(inp))
		dbG.AddLog(&types.Log{Address: c.CallerAddress})
		var e error
		switch d.kind {
		case 1:
			e = ethvm.ErrExecutionReverted
		case 2:
			e = ethvm.ErrOutOfGas
		}
		return d.ret, e
	}
	callerG := ethvm.NewContract(ethvm.AccountRef(grand), ethvm.AccountRef(callerAddr), parentValue, 1)
	var retG []byte
	var leftG uint64
	var errG error
	var newG common.Address
	switch kind {
	case 0:
		retG, leftG, errG = evmG.Call(callerG, addr, input, gas, value)
	case 1:
		retG, leftG, errG = evmG.CallCode(callerG, addr, input, gas, value)
	case 2:
		retG, leftG, errG = evmG.DelegateCall(callerG, addr, input, gas)
	case 3:
		retG, leftG, errG = evmG.StaticCall(callerG, addr, input, gas)
	case 4:
		retG, newG, leftG, errG = evmG.Create(callerG, input, gas, value)
	default:
		retG, newG, leftG, errG = evmG.Create2(callerG, input, gas, value, &salt)
	}
	verifReach("both-ran")
	if nA > 0 {
		verifReach("callee-ran")
	}
	verifAssert(verifSameErr(errA, errG), "C01: same success or failure class")
	verifAssert(verifBytesEq(retA, retG), "C01: same return data")
	verifAssert(newA == newG, "C01: same created address")
	verifAssert(leftA == leftG, "C02: same gas handed back by the frame")
	verifAssert(nA == nG, "C01: the callee's code runs on both sides or on neither")
	verifCompareWorlds(dbA, dbG, "C01")
	if debug {
		verifCompareTraces(lgA, lgG, "C18")
		verifCompareTraces(lgA, lgG, "C01")
	}
}

func init() {
	verifHarnesses["VerifHarness_RelTables"] = VerifHarness_RelTables
}

// VerifHarness_RelTables: for every fork Frontier..Shanghai the instruction table the
// artela interpreter selects is compared entry by entry with the table the go-ethereum
// v1.12.0 interpreter selects: handler, constant gas, dynamic gas function, memory-size
// function and stack bounds of all 256 opcode bytes (0xe0-0xe7 must be Artela's journal
// instructions with the flat dynamic fee and undefined upstream).
func VerifHarness_RelTables() {
	for fork := uint64(0); fork <= 10; fork++ {
		cfg := verifChainConfig(fork)
		if fork == 9 {
			cfg = verifChainConfig(8) // the Merge rules are selected by the block's random field
		}
		rnd := common.Hash{1}
		var rp *common.Hash
		if fork >= 9 {
			rp = &rnd
		}
		evmA := NewEVM(BlockContext{BlockNumber: big.NewInt(0), Random: rp}, TxContext{}, newVerifStateDB(), cfg, Config{})
		evmG := ethvm.NewEVM(ethvm.BlockContext{BlockNumber: big.NewInt(0), Random: rp}, ethvm.TxContext{}, newVerifStateDB(), cfg, ethvm.Config{})
		tA := evmA.Interpreter().table
		want, _ := verifTable(fork)
		verifAssert(tA == want, "C01: the interpreter selects the fork's own instruction table")
		for b := 0; b < 256; b++ {
			o := tA[b]
			ex, cg, dg, mn, mx, ms := evmG.Interpreter().VerifOp(byte(b))
			if b >= int(RSVJNAL) && b <= int(VRJNAL) {
				verifAssert(verifFuncName(ex) == "opUndefined", "C01: 0xe0-0xe7 are undefined upstream")
				verifAssert(o.constantGas == 0 && o.dynamicGas != nil && o.memorySize == nil, "C12: journal instructions are present on every fork with a dynamic flat fee")
				pops := verifJournalPops(OpCode(b))
				verifAssert(o.minStack == pops && o.maxStack == int(params.StackLimit)+pops, "C12: a journal instruction's declared stack effect is exactly its operand pops")
				continue
			}
			verifAssert(verifFuncName(o.execute) == verifFuncName(ex), "C01: same handler for every opcode byte on every fork")
			verifAssert(o.constantGas == cg, "C02: same constant gas for every opcode byte on every fork")
			verifAssert(verifFuncName(o.dynamicGas) == verifFuncName(dg), "C02: same dynamic gas function for every opcode byte on every fork")
			verifAssert(verifFuncName(o.memorySize) == verifFuncName(ms), "C02: same memory-size function for every opcode byte on every fork")
			verifAssert(o.minStack == mn && o.maxStack == mx, "C01: same stack bounds for every opcode byte on every fork")
		}
	}
	verifReach("tables-compared")
}

// verifJournalPops: the number of operands each journal instruction consumes (it pushes nothing).
func verifJournalPops(op OpCode) int {
	switch op {
	case RSVJNAL:
		return 3
	case VSVJNAL:
		return 4
	case IRVVJNAL, IVVVJNAL:
		return 6
	case IRVRJNAL, IVVRJNAL:
		return 5
	case VVJNAL:
		return 4
	case VRJNAL:
		return 2
	}
	return 0
}

func init() {
	verifHarnesses["VerifHarness_RelGas"] = VerifHarness_RelGas
}

// VerifHarness_RelGas: the memory-size and dynamic-gas functions of every table entry of a
// fork (opcodes lo..hi), artela vs go-ethereum v1.12.0, on the same arbitrary stack words,
// remaining gas and world (warm/cold, empty/existing, original/current storage values are
// arbitrary and equal on both sides).
func VerifHarness_RelGas(lo, hi, fork uint64) {
	cfg := verifChainConfig(fork)
	rnd := common.Hash{1}
	var rp *common.Hash
	if fork >= 9 {
		rp = &rnd
	}
	opRaw := verifU64("op")
	verifAssume(opRaw >= lo && opRaw <= hi)
	op := OpCode(verifConcretize(opRaw))
	dbA, dbG := newVerifStateDB(), newVerifStateDB()
	dbG.codes = dbA.codes
	evmA := NewEVM(BlockContext{BlockNumber: big.NewInt(0), Random: rp}, TxContext{}, dbA, cfg, Config{})
	evmG := ethvm.NewEVM(ethvm.BlockContext{BlockNumber: big.NewInt(0), Random: rp}, ethvm.TxContext{}, dbG, cfg, ethvm.Config{})
	oA := evmA.Interpreter().table[op]
	need := oA.minStack
	wordsA := make([]uint256.Int, 0, 20)
	for i := 0; i < need; i++ {
		wordsA = append(wordsA, verifU256("stack"))
	}
	wordsG := make([]uint256.Int, len(wordsA), 20)
	copy(wordsG, wordsA)
	mwRaw := verifU64("memwords")
	verifAssume(mwRaw <= 2)
	mw := verifConcretize(mwRaw)
	memLen := mw * 32
	self, callerAddr := verifAddr("self"), verifAddr("caller")
	gas := verifU64("gas")
	value := verifBig("callvalue")
	contractA := NewContract(AccountRef(callerAddr), AccountRef(self), value, gas)
	contractG := ethvm.NewContract(ethvm.AccountRef(callerAddr), ethvm.AccountRef(self), value, gas)
	// memories of equal length; their content does not matter to gas
	memA := &Memory{store: make([]byte, memLen), lastGasCost: verifMemCostWords(mw)}
	memG := ethvm.VerifMemoryWith(make([]byte, memLen), verifMemCostWords(mw))

	hasDynA := oA.dynamicGas != nil
	var memSizeA uint64
	var ovfA bool
	stackA := &Stack{data: wordsA}
	stackG := ethvm.VerifStackWith(wordsG)
	if hasDynA && oA.memorySize != nil {
		ms, ovf := oA.memorySize(stackA)
		ovfA = ovf
		if !ovf {
			var ovf2 bool
			memSizeA, ovf2 = math.SafeMul(toWordSize(ms), 32)
			ovfA = ovf2
		}
	}
	hasDynG, memSizeG, ovfG := evmG.Interpreter().VerifMemSizeOf(byte(op), stackG)
	verifReach("both-evaluated")
	if op >= RSVJNAL && op <= VRJNAL {
		return
	}
	verifAssert(hasDynA == hasDynG, "C02: the same opcodes have a dynamic gas part")
	verifAssert(ovfA == ovfG, "C02: the same memory-size overflow verdict")
	if !hasDynA || !hasDynG || ovfA || ovfG {
		return
	}
	verifAssert(memSizeA == memSizeG, "C02: the same memory size requested for every operand")
	// the fee itself is compared for small expansions (the quadratic memory fee is the same
	// function on both sides; Step/RelStep cover it through the interpreter loop)
	verifAssume(memSizeA == memSizeG && memSizeA <= 128)
	memSize := verifConcretize(memSizeA)
	gasA, errA := oA.dynamicGas(evmA, contractA, stackA, memA, memSize)
	gasG, errG := evmG.Interpreter().VerifDynGasOf(byte(op), contractG, stackG, memG, memSize)
	verifAssert(verifSameErr(errA, errG), "C02: the same gas error")
	if errA == nil && errG == nil {
		verifAssert(gasA == gasG, "C02: the same dynamic gas for every operand, remaining gas and world")
		verifAssert(gasA >= gasG, "C20: no standard instruction is charged less than go-ethereum charges for the same operands and memory expansion")
	}
	verifCompareWorlds(dbA, dbG, "C02")
	verifAssert(contractA.Gas == contractG.Gas, "C02: the gas function does not itself consume gas")
}

// verifMemCostWords is the memory fee already paid for w words.
func verifMemCostWords(w uint64) uint64 { return w*params.MemoryGas + w*w/params.QuadCoeffDiv }

func init() {
	verifHarnesses["VerifHarness_ModexpGas"] = VerifHarness_ModexpGas
}

// VerifHarness_ModexpGas: the real gas function of the modexp precompile (not its summary),
// artela vs go-ethereum v1.12.0, on inputs whose three length fields are drawn from a small
// set of boundary values (including one far beyond the data present) and whose data bytes
// are arbitrary; the input may be truncated at every field boundary.  Writes to package-level
// big-number constants are reported by the engine (C16/C17).
func VerifHarness_ModexpGas(eip2565 uint64) {
	sizes := []uint64{0, 1, 32, 33, 1 << 20}
	if verifParam("full") == 1 {
		sizes = []uint64{0, 1, 31, 32, 33, 64, 1 << 20}
	}
	pick := func(name string) uint64 {
		i := verifU64(name)
		verifAssume(i < uint64(len(sizes)))
		return sizes[verifConcretize(i)]
	}
	capped := func(x uint64) uint64 {
		if x > 64 {
			return 64
		}
		return x
	}
	bl, el, ml := pick("baselen"), pick("explen"), pick("modlen")
	full := make([]byte, 96+capped(bl)+capped(el)+capped(ml))
	put := func(off int, v uint64) {
		for k := 0; k < 8; k++ {
			full[off+31-k] = byte(v >> (8 * uint(k)))
		}
	}
	put(0, bl)
	put(32, el)
	put(64, ml)
	data := verifBytes("data", uint64(len(full)-96), 192)
	copy(full[96:], data)
	cuts := []uint64{0, 96, 96 + capped(bl) + 1, 96 + capped(bl) + capped(el), uint64(len(full))}
	if verifParam("full") == 1 {
		cuts = []uint64{0, 95, 96, 96 + capped(bl), 96 + capped(bl) + 1, 96 + capped(bl) + capped(el), uint64(len(full))}
	}
	ci := verifU64("cut")
	verifAssume(ci < uint64(len(cuts)))
	n := cuts[verifConcretize(ci)]
	if n > uint64(len(full)) {
		n = uint64(len(full))
	}
	input := full[:n]
	inputG := common.CopyBytes(input)
	gA := (&bigModExp{eip2565: eip2565 == 1}).RequiredGas(input)
	gG := ethvm.VerifModexpGas(eip2565 == 1, inputG)
	verifReach("both-priced")
	verifAssert(gA == gG, "C02: modexp is charged exactly as in go-ethereum for every length field and exponent head")
	gA2 := (&bigModExp{eip2565: eip2565 == 1}).RequiredGas(input)
	verifAssert(gA2 == gA, "C16: pricing the same input twice gives the same fee")
}

func init() {
	verifHarnesses["VerifHarness_ModexpWork"] = VerifHarness_ModexpWork
}

var verifModexpFee uint64

// verifModexpOOB is called by the engine when the precompile body asks for a buffer larger
// than the encoding's: the fee computed from the same input must pay for it.
func verifModexpOOB(size uint64) {
	verifAssert(size/64 <= verifModexpFee+128, "C20: modexp never allocates by a length field that its fee does not cover")
}

// VerifHarness_ModexpWork: the real body and the real gas function of the modexp precompile
// (not their summaries; the exponentiation itself stays an uninterpreted function) behind the
// real RunPrecompiledContract, on inputs whose base and modulus lengths are 0, 1 or 32 and
// whose exponent length is 0, 1, 32 or an arbitrary value from 2^12 to 2^64-1, with 0, 1, 33
// or 100 data bytes present.  Gas supplied: arbitrary up to 2^40 (far above any block limit;
// beyond it the length arithmetic of the body may wrap, as in go-ethereum).
func VerifHarness_ModexpWork(eip2565 uint64) {
	sizes := []uint64{0, 1, 32}
	pick := func(name string, from []uint64) uint64 {
		i := verifU64(name)
		verifAssume(i < uint64(len(from)))
		return from[verifConcretize(i)]
	}
	bl, ml := pick("baselen", sizes), pick("modlen", sizes)
	var el uint64
	if verifBool("explen.large") {
		el = verifU64("explen")
		verifAssume(el >= 1<<12)
	} else {
		el = pick("explen.small", sizes)
	}
	dl := pick("datalen", []uint64{0, 1, 33, 100})
	input := make([]byte, 96+dl)
	put := func(off int, v uint64) {
		for k := 0; k < 8; k++ {
			input[off+31-k] = byte(v >> (8 * uint(k)))
		}
	}
	put(0, bl)
	put(32, el)
	put(64, ml)
	copy(input[96:], verifBytes("data", dl, 100))
	c := &bigModExp{eip2565: eip2565 == 1}
	supplied := verifU64("supplied")
	verifAssume(supplied <= 1<<40)
	verifModexpFee = c.RequiredGas(input)
	out, left, err := RunPrecompiledContract(context.Background(), c, input, supplied)
	verifReach("ran")
	if verifModexpFee > supplied {
		verifAssert(err == ErrOutOfGas && left == 0 && out == nil, "C14: an unaffordable modexp call is refused before the body runs")
		return
	}
	verifReach("affordable")
	verifAssert(err == nil && left == supplied-verifModexpFee, "C03: modexp does not fail on well-formed length fields")
	if bl == 0 && ml == 0 {
		verifAssert(len(out) == 0, "C14: empty base and modulus give an empty result")
	} else {
		verifAssert(uint64(len(out)) == ml, "C14: the result has the modulus length")
	}
}
