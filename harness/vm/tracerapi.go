//go:build verif

package vm

import (
	"math/big"

	"github.com/ethereum/go-ethereum/common"
	"github.com/holiman/uint256"
)

func init() {
	verifHarnesses["VerifHarness_TransferWithRecord"] = VerifHarness_TransferWithRecord
	verifHarnesses["VerifHarness_TracerHistory"] = VerifHarness_TracerHistory
	verifHarnesses["VerifHarness_CallTreeOps"] = VerifHarness_CallTreeOps
}

type verifObs struct {
	acct common.Address
	val  []byte
}

// verifCollapse is the reference journal: chronological, immediate repeats collapsed.
func verifCollapse(obs []verifObs, acct common.Address) [][]byte {
	var out [][]byte
	for _, o := range obs {
		if o.acct != acct {
			continue
		}
		if len(out) > 0 && verifBytesEq(out[len(out)-1], o.val) {
			continue
		}
		out = append(out, o.val)
	}
	return out
}

func verifSameLists(got, want [][]byte, tag string) {
	verifAssert(len(got) == len(want), tag+" (number of entries)")
	for i := range want {
		verifAssert(verifBytesEq(got[i], want[i]), tag+" (entry content)")
	}
}

// VerifHarness_TransferWithRecord: the balance journal around one value
// transfer, for arbitrary parties (possibly equal), amount and balances.
func VerifHarness_TransferWithRecord() {
	tr := NewTracer()
	db := newVerifStateDB()
	from, to := verifAddr("from"), verifAddr("to")
	amount := verifBig("amount")
	if verifBool("incall") {
		tr.SaveCall(from, &to, nil, uint256.NewInt(0), uint256.NewInt(0))
		tr.SaveCall(from, &to, nil, uint256.NewInt(0), uint256.NewInt(0))
	}
	idx := tr.CurrentCallIndex()
	// the true balances at the four observation instants
	b1 := uint256.MustFromBig(db.GetBalance(from)).Bytes()
	b2 := uint256.MustFromBig(db.GetBalance(to)).Bytes()
	transferred := 0
	tf := func(sdb StateDB, f, t common.Address, a *big.Int) {
		transferred++
		verifAssert(f == from && t == to && a.Cmp(amount) == 0, "C13: the host transfer gets the frame's parties and amount")
		sdb.(*verifStateDB).emit(verifEvent{kind: "Transfer"})
	}
	tr.TransferWithRecord(db, from, to, amount, tf)
	verifReach("returned")
	verifAssert(transferred == 1, "C13: the host transfer function runs exactly once")
	b3 := uint256.MustFromBig(db.GetBalance(from)).Bytes()
	b4 := uint256.MustFromBig(db.GetBalance(to)).Bytes()
	obs := []verifObs{{from, b1}, {to, b2}, {from, b3}, {to, b4}}

	for _, who := range []common.Address{from, to} {
		ch := tr.StateChanges().Balance(who)
		verifAssert(ch != nil, "C13: both parties have a balance journal")
		if ch == nil {
			continue
		}
		m := ch.Changes()
		verifAssert(len(m) == 1, "C13: entries only under the frame's call index")
		verifSameLists(m[idx], verifCollapse(obs, who), "C13: before/after balances in order, repeats collapsed")
	}
	other := verifAddr("other")
	if other != from && other != to {
		verifAssert(tr.StateChanges().Balance(other) == nil, "C13: no balance entry without a transfer")
	}
}

// VerifHarness_TracerHistory: histories of enter/exit/journal operations over
// two accounts and two keys against a list model (C10).
func VerifHarness_TracerHistory() {
	steps := int(verifParam("steps"))
	tr := NewTracer()
	accts := []common.Address{verifAddr("acct0"), verifAddr("acct1")}
	verifAssume(accts[0] != accts[1])
	slots := []uint256.Int{verifU256("slot0"), verifU256("slot1")}
	verifAssume(!slots[0].Eq(&slots[1]))
	tid := verifHash("tid")
	for a := 0; a < 2; a++ {
		for k := 0; k < 2; k++ {
			err := tr.SaveStateKey(accts[a], nil, &slots[k], nil, tid, common.Hash{}, []byte{byte('a' + k)})
			verifAssert(err == nil, "registration succeeds")
		}
	}
	// reference model
	var ref [2][2]map[uint64][][]byte
	for a := 0; a < 2; a++ {
		for k := 0; k < 2; k++ {
			ref[a][k] = map[uint64][][]byte{}
		}
	}
	var open []uint64
	count := uint64(0)
	for s := 0; s < steps; s++ {
		opRaw := verifU64("op")
		verifAssume(opRaw <= 2)
		switch verifConcretize(opRaw) {
		case 0:
			tr.SaveCall(accts[0], &accts[1], nil, uint256.NewInt(0), uint256.NewInt(0))
			open = append(open, count)
			count++
		case 1:
			tr.ExitCall(0, nil, verifErrKind(verifIteU64(verifBool("exiterr"), 3, 0)))
			if len(open) > 0 {
				open = open[:len(open)-1]
			}
		default:
			aRaw, kRaw := verifU64("a"), verifU64("k")
			verifAssume(aRaw <= 1)
			verifAssume(kRaw <= 1)
			a, k := verifConcretize(aRaw), verifConcretize(kRaw)
			val := verifBytes("val", 1, 1)
			err := tr.SaveStateChange(accts[a], &slots[k], nil, tid, val)
			verifAssert(err == nil, "C10: journal for a registered key succeeds")
			idx := uint64(0)
			if len(open) > 0 {
				idx = open[len(open)-1]
			}
			verifAssert(tr.CurrentCallIndex() == idx, "C10: entries are stamped with the innermost open call")
			l := ref[a][k][idx]
			if !(len(l) > 0 && verifBytesEq(l[len(l)-1], val)) {
				ref[a][k][idx] = append(l, val)
			}
		}
	}
	verifReach("history-done")
	for a := 0; a < 2; a++ {
		for k := 0; k < 2; k++ {
			ch, err := tr.StateChanges().Slot(accts[a], &slots[k], nil, tid)
			verifAssert(err == nil, "C10: lookup of a registered key succeeds")
			got := map[uint64][][]byte{}
			if ch != nil && ch.Changes() != nil {
				got = ch.Changes()
			}
			verifAssert(len(got) == len(ref[a][k]), "C10: entries never appear under another account, key or call")
			for idx, want := range ref[a][k] {
				verifSameLists(got[idx], want, "C10: chronological list per key and call, repeats collapsed")
			}
		}
	}
}

// verifCheckTree asserts the well-formedness of the recorded call tree.
func verifCheckTree(ct *CallTree, attempts uint64) {
	verifAssert(ct.count == attempts, "C07: one node per recorded attempt")
	verifAssert(uint64(len(ct.lookup)) == attempts, "C07: dense lookup table")
	for i := uint64(0); i < attempts; i++ {
		n := ct.FindCall(i)
		verifAssert(n != nil && n.Index == i, "C07: lookup by index returns the node carrying it")
		if n == nil {
			return
		}
		if n.Parent != nil {
			verifAssert(n.Parent.Index < i, "C07: parent has a smaller index")
			occurs := 0
			for _, c := range n.Parent.Children {
				if c == n {
					occurs++
				}
			}
			verifAssert(occurs == 1, "C07: listed exactly once among the parent's children")
			verifAssert(ct.ParentOf(i) == n.Parent, "C07: ParentOf agrees")
		}
		kids := ct.ChildrenOf(i)
		for j := range kids {
			verifAssert(kids[j].Parent == n, "C07: children point back to their parent")
			if j > 0 {
				verifAssert(kids[j-1].Index < kids[j].Index, "C07: children in increasing index order")
			}
		}
		ci := n.ChildrenIndices()
		verifAssert(len(ci) == len(kids), "C07: children indices agree")
	}
}

// VerifHarness_CallTreeOps: histories of enter/exit on the call tree, with more
// exits than entries allowed, then the well-formedness checker.
func VerifHarness_CallTreeOps() {
	steps := int(verifParam("steps"))
	tr := NewTracer()
	a := verifAddr("a")
	attempts := uint64(0)
	depth := 0
	for s := 0; s < steps; s++ {
		if verifBool("enter") {
			tr.SaveCall(a, &a, nil, uint256.NewInt(0), uint256.NewInt(attempts))
			verifAssert(tr.CurrentCallIndex() == attempts, "C07: indices assigned in order of entry")
			attempts++
			depth++
		} else {
			tr.ExitCall(verifU64("left"), nil, nil)
			if depth > 0 {
				depth--
			}
		}
	}
	for depth > 0 {
		tr.ExitCall(0, nil, nil)
		depth--
	}
	verifReach("history-done")
	verifAssert(tr.CallTree().Current() == nil, "C07: no call is left open")
	verifCheckTree(tr.CallTree(), attempts)
	if attempts > 0 {
		verifAssert(tr.CallTree().Root() == tr.CallTree().FindCall(0), "C07: root is the first call")
	}
}

func init() {
	verifHarnesses["VerifHarness_KeyTreeHistory"] = VerifHarness_KeyTreeHistory
}

type verifKeyReg struct {
	slot   uint256.Int
	off    uint8
	offArg *uint256.Int
	tid    common.Hash
	name   []byte
}

// VerifHarness_KeyTreeHistory: two top-level registrations with arbitrary (possibly
// equal) slots, offsets, type ids and names, then a change journal for the second
// one; both lookups must agree for every registration that reported success.
func VerifHarness_KeyTreeHistory() {
	tr := NewTracer()
	acct := verifAddr("acct")
	regs := make([]verifKeyReg, 2)
	for i := range regs {
		r := &regs[i]
		r.slot = verifU256("slot")
		r.off = verifU8("offset")
		verifAssume(r.off <= 31)
		if verifBool("hasoffset") {
			r.offArg = uint256.NewInt(uint64(r.off))
		} else {
			r.off = 0
		}
		r.tid = verifHash("typeid")
		r.name = verifBytes("name", 1, 1)
	}
	// distinct variables have distinct names; the same name registered twice is a re-registration
	sameName := regs[0].name[0] == regs[1].name[0]
	sameKey := regs[0].slot.Eq(&regs[1].slot) && regs[0].off == regs[1].off && regs[0].tid == regs[1].tid
	if sameName {
		verifAssume(sameKey)
	}
	for i := range regs {
		r := &regs[i]
		err := tr.SaveStateKey(acct, nil, &r.slot, r.offArg, r.tid, common.Hash{}, r.name)
		verifAssert(err == nil, "C11: a top-level registration with offset<=31 succeeds")
	}
	verifReach("registered")
	st := tr.StateChanges()
	for i := range regs {
		r := &regs[i]
		byName := st.FindKeyIndices(acct, string(r.name))
		bySlot := st.findKey(acct, &r.slot, r.off, r.tid)
		verifAssert(byName != nil, "C11: a registered key is reachable by name")
		verifAssert(bySlot != nil, "C11: a registered key is reachable by (slot, offset, type)")
		verifAssert(byName == bySlot, "C11: both lookups reach the same record")
	}
	if sameName {
		verifReach("re-registered")
		verifAssert(len(st.roots[acct].childrenIndex) == 1, "C11: re-registering an existing key is idempotent")
	}
	// journal a change for the second registration: visible through both lookups
	val := verifBytes("val", 1, 1)
	r := &regs[1]
	err := tr.SaveStateChange(acct, &r.slot, r.offArg, r.tid, val)
	verifAssert(err == nil, "C11: a change journaled for a registered key is accepted")
	v1 := st.Variable(acct, string(r.name))
	v2, err2 := st.Slot(acct, &r.slot, r.offArg, r.tid)
	verifAssert(err2 == nil && v1 != nil && v1 == v2, "C11: the journaled change is returned by both lookups")
	// an unregistered key is refused and changes nothing
	other := verifU256("otherslot")
	if !other.Eq(&regs[0].slot) && !other.Eq(&regs[1].slot) {
		verifReach("unregistered")
		err := tr.SaveStateChange(acct, &other, nil, r.tid, val)
		verifAssert(err != nil, "C11: a change for an unregistered key is refused")
		ch, _ := st.Slot(acct, &other, nil, r.tid)
		verifAssert(ch == nil, "C11: a refused change modifies nothing")
	}
	// an offset beyond 31 (any 256-bit value) is refused for registered slots too, by the
	// journal call, the registration call and the lookup alike, and changes nothing
	bad := verifU256("badoffset")
	if bad.GtUint64(31) {
		verifReach("bad-offset")
		before := 0
		if c := st.Variable(acct, string(r.name)); c != nil {
			for _, l := range c.Changes() {
				before += len(l)
			}
		}
		err := tr.SaveStateChange(acct, &r.slot, &bad, r.tid, []byte{0x5a})
		verifAssert(err != nil, "C11: a change at an offset beyond 31 is refused")
		err = tr.SaveStateKey(acct, nil, &r.slot, &bad, r.tid, common.Hash{}, []byte("zz"))
		verifAssert(err != nil, "C11: a registration at an offset beyond 31 is refused")
		_, err = st.Slot(acct, &r.slot, &bad, r.tid)
		verifAssert(err != nil, "C11: a lookup at an offset beyond 31 is refused")
		after := 0
		if c := st.Variable(acct, string(r.name)); c != nil {
			for _, l := range c.Changes() {
				after += len(l)
			}
		}
		verifAssert(after == before && st.FindKeyIndices(acct, "zz") == nil, "C11: a refused change or registration modifies nothing")
	}
}

func init() {
	verifHarnesses["VerifHarness_TwoTransfers"] = VerifHarness_TwoTransfers
	verifHarnesses["VerifHarness_ExtraEips"] = VerifHarness_ExtraEips
}

// VerifHarness_TwoTransfers: two value transfers of two different frames that may
// involve the same accounts; every frame has its own before/after entries, whatever
// an earlier frame recorded (balances may or may not change in between).
func VerifHarness_TwoTransfers() {
	tr := NewTracer()
	db := newVerifStateDB()
	a, b := verifAddr("a"), verifAddr("b")
	verifAssume(a != b)
	amount := verifBig("amount")
	tf := func(sdb StateDB, f, t common.Address, x *big.Int) {
		if verifBool("transfer.changes.state") {
			sdb.(*verifStateDB).emit(verifEvent{kind: "Transfer"})
		}
	}
	var idx [2]uint64
	var obs [2][]verifObs
	// the accounts may also register state variables and journal changes of them, before the
	// first transfer or between the two: the balance journal is unaffected
	slot, tid := verifU256("slot"), verifHash("tid")
	regs := 0
	register := func(who common.Address, name string) {
		if verifBool(name + ".registers") {
			err := tr.SaveStateKey(who, nil, &slot, nil, tid, common.Hash{}, []byte("x"))
			verifAssert(err == nil, "registration succeeds")
			if verifBool(name + ".journals") {
				err = tr.SaveStateChange(who, &slot, nil, tid, []byte{7})
				verifAssert(err == nil, "journal for a registered key succeeds")
			}
			regs++
		}
	}
	register(a, "a.before")
	for k := 0; k < 2; k++ {
		from, to := a, b
		if k == 1 && verifBool("second.reversed") {
			from, to = b, a
		}
		tr.SaveCall(from, &to, nil, uint256.NewInt(0), uint256.NewInt(0))
		idx[k] = tr.CurrentCallIndex()
		b1 := uint256.MustFromBig(db.GetBalance(from)).Bytes()
		b2 := uint256.MustFromBig(db.GetBalance(to)).Bytes()
		tr.TransferWithRecord(db, from, to, amount, tf)
		b3 := uint256.MustFromBig(db.GetBalance(from)).Bytes()
		b4 := uint256.MustFromBig(db.GetBalance(to)).Bytes()
		obs[k] = []verifObs{{from, b1}, {to, b2}, {from, b3}, {to, b4}}
		if k == 0 && verifBool("first.returns") {
			tr.ExitCall(0, nil, nil)
		}
		if k == 0 {
			register(a, "a.between")
			register(b, "b.between")
		}
	}
	register(b, "b.after")
	verifReach("both-transferred")
	if regs > 0 {
		verifReach("with-registrations")
	}
	verifAssert(idx[0] != idx[1], "two frames have two call indices")
	for _, who := range []common.Address{a, b} {
		ch := tr.StateChanges().Balance(who)
		verifAssert(ch != nil, "C13: both parties have a balance journal")
		if ch == nil {
			continue
		}
		m := ch.Changes()
		verifAssert(len(m) == 2, "C13: entries under each frame's own call index")
		for k := 0; k < 2; k++ {
			verifSameLists(m[idx[k]], verifCollapse(obs[k], who), "C13: every frame records its own before/after balances")
		}
	}
}

// VerifHarness_ExtraEips: an interpreter built with every activatable extra EIP on every
// fork table; whatever the activators write must land in the interpreter's own copy of the
// table (the engine reports every write to package-level memory), and a plain interpreter
// built afterwards still sees the fork's unmodified table.
func VerifHarness_ExtraEips() {
	for fork := uint64(0); fork <= 11; fork++ {
		table, rules := verifTable(fork)
		var before [256]operation
		for i := range table {
			before[i] = *table[i]
		}
		for eip := range activators {
			evm := &EVM{chainRules: rules, StateDB: newVerifStateDB(), tracer: NewTracer()}
			evm.Config.ExtraEips = []int{eip}
			in := NewEVMInterpreter(evm)
			verifAssert(in.table != table, "C17: extra EIPs are enabled on a private copy of the table")
		}
		for i := range table {
			o := table[i]
			verifAssert(o.constantGas == before[i].constantGas && o.minStack == before[i].minStack && o.maxStack == before[i].maxStack &&
				verifFuncName(o.execute) == verifFuncName(before[i].execute) && verifFuncName(o.dynamicGas) == verifFuncName(before[i].dynamicGas),
				"C17: enabling extra EIPs on one interpreter leaves the shared fork table untouched")
		}
	}
	verifReach("all-enabled")
}

